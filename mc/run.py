"""CLI of the checks:  python -m mc.run <Cxx> [quick|thorough] [--replay <file>]

exit 0  property held on everything explored (KNOWN-FINDING lines possible)
exit 1  at least one violation not listed as known; one line
        "VIOLATION property=<id> replay=<path>" per violation class
exit 2  the machinery itself is broken (build failed, nondeterministic replay, bad evidence)
"""
import importlib
import json
import multiprocessing as mp
import os
import random
import subprocess
import sys
import time
import traceback

VERIF = os.path.dirname(os.path.dirname(os.path.abspath(__file__)))
REPO = os.environ.get("VERIF_REPO", "/repo")
sys.path[0:0] = [os.path.join(REPO, "src")]
if VERIF not in sys.path:
    sys.path.insert(0, VERIF)

from mc.explore import Acc, jsonable, h64  # noqa: E402

EVIDENCE_SCHEMA = "/root/.vp/EVIDENCE.schema.json"
# Runs against another checkout (VERIF_REPO: seeded changes, mutants) must not overwrite the evidence and replays of /repo
OUT = VERIF if os.path.realpath(REPO) == "/repo" else os.path.join(VERIF, "build", "other_checkout")


def load_known():
    path = os.path.join(VERIF, "known_findings.json")
    if not os.path.exists(path):
        return []
    with open(path) as f:
        return json.load(f)["findings"]


def _run_shard(args):
    modname, shard = args
    mod = importlib.import_module(modname)
    try:
        return mod.run_shard(shard)
    except Exception:
        raise RuntimeError("shard %r failed:\n%s" % (shard, traceback.format_exc()))


def _preload():
    """Import (never call) the library in the parent so that the per-shard children need not import it again."""
    import pkgutil
    import warnings
    with warnings.catch_warnings():
        warnings.simplefilter("ignore")
        try:
            import pylife
            mods = [m.name for m in pkgutil.walk_packages(pylife.__path__, "pylife.")]
        except Exception:
            return
        for name in mods:
            if any(x in name for x in ("vmap", "odbclient", "odbserver", "mesh.gradient", "utils.diagrams")):
                continue
            try:
                importlib.import_module(name)
            except Exception:
                pass


def explore(mod, tier, seed):
    """-> (merged Acc, shards, {violation key: index of the first shard that reported it}).
    Every shard runs in a child forked from this (pristine) parent, which imports pyLife but never calls it:
    whatever state a shard sees in the process (module level caches, class attributes, mutated defaults) was
    produced by the shard's own earlier cases, so a shard re-run in a fresh interpreter sees the same."""
    if hasattr(mod, "prepare"):
        mod.prepare(tier)
    shards = mod.shards(tier)
    nproc = int(os.environ.get("VERIF_PROCS", min(16, os.cpu_count() or 1)))
    total = Acc()
    first_shard = {}
    _preload()
    ctx = mp.get_context("fork")
    with ctx.Pool(max(1, min(nproc, len(shards))), maxtasksperchild=1) as pool:
        # imap keeps enumeration order: the first case of a violation class stays the shortest one
        for i, r in enumerate(pool.imap(_run_shard, [(mod.__name__, s) for s in shards], chunksize=1)):
            for k in r.viol:
                first_shard.setdefault(k, i)
            total.merge(r)
    if total.state_set:
        total.states = len(total.state_set)
    return total, shards, first_shard


def replay_in_subprocess(pid, path):
    """Re-execute one case in a fresh interpreter; returns the sorted list of violation keys."""
    cmd = [sys.executable, "-m", "mc.run", pid, "--replay", path, "--json"]
    p = subprocess.run(cmd, cwd=VERIF, capture_output=True, text=True)
    if p.returncode not in (0, 1):
        raise RuntimeError("replay subprocess failed (%d):\n%s\n%s" % (p.returncode, p.stdout[-2000:], p.stderr[-4000:]))
    for line in p.stdout.splitlines():
        if line.startswith("REPLAY-JSON "):
            return json.loads(line[len("REPLAY-JSON "):])
    raise RuntimeError("replay subprocess printed no result:\n%s\n%s" % (p.stdout[-2000:], p.stderr[-4000:]))


def do_replay(mod, path, as_json):
    with open(path) as f:
        rec = json.load(f)
    if hasattr(mod, "prepare"):
        mod.prepare("quick")
    if "shard" in rec:
        # a violation that needs the cases in front of it in the same process: re-run the whole shard
        acc = mod.run_shard(rec["shard"])
        found = [(k, {"first_case": v[1], "detail": v[2]}) for k, v in acc.viol.items() if k == rec["key"]]
    else:
        found = mod.replay(rec["case"])
    found = [(k, jsonable(d)) for k, d in found]
    if as_json:
        print("REPLAY-JSON " + json.dumps(sorted([k, h64(d)] for k, d in found)))
    else:
        print("replaying %s case=%s" % (rec["property"], json.dumps(rec["case"])))
        if not found:
            print("no violation on this tree")
        for k, d in found:
            print("violation %s: %s" % (k, json.dumps(d)))
    return 1 if found else 0


def main(argv):
    if not argv:
        print(__doc__)
        return 2
    pid = argv[0].upper()
    mod = importlib.import_module("mc.checks." + pid.lower())
    if "--replay" in argv:
        return do_replay(mod, argv[argv.index("--replay") + 1], "--json" in argv)
    tier = os.environ.get("VERIF_TIER") or "quick"
    for a in argv[1:]:
        if a in ("quick", "thorough"):
            tier = a
    seed = int(os.environ.get("VERIF_SEED", "0") or 0)
    t0 = time.time()
    acc, shards, first_shard = explore(mod, tier, seed)
    nshards = len(shards)

    known = {k["key"]: k for k in load_known() if k["property"] == pid and k["status"] == "known"}
    new, listed = [], []
    for key in sorted(acc.viol, key=lambda k: json.dumps(acc.viol[k][1])):
        (listed if key in known else new).append(key)

    out_lines, rc = [], 0
    os.makedirs(os.path.join(OUT, "replays", pid), exist_ok=True)
    for key in listed:
        out_lines.append("KNOWN-FINDING: property=%s %s [%s; %d cases, first %s]" % (
            pid, known[key]["what"], key, acc.viol[key][0], json.dumps(acc.viol[key][1])))
    for key in new:
        count, case, detail = acc.viol[key]
        fname = "%s_%016x.json" % (key.replace("/", "_"), h64(case))
        path = os.path.join(OUT, "replays", pid, fname)
        with open(path, "w") as f:
            json.dump({"property": pid, "key": key, "case": case, "detail": detail, "count_in_run": count,
                       "tier": tier, "replay": "./check %s --replay %s" % (pid, path)}, f, indent=1)
        # a violation is only reported if it reproduces identically in two fresh interpreters
        r1 = replay_in_subprocess(pid, path)
        r2 = replay_in_subprocess(pid, path)
        if r1 == r2 and key not in [k for k, _ in r1]:
            # the case alone is clean in a fresh interpreter: the violation needs state left behind by the cases
            # that ran before it in the same process.  Replay the shard (= the complete history of that process).
            with open(path, "w") as f:
                json.dump({"property": pid, "key": key, "case": case, "detail": detail, "count_in_run": count,
                           "tier": tier, "shard": jsonable(shards[first_shard[key]]),
                           "note": "history dependent: the case alone is clean in a fresh interpreter; 'shard' is "
                                   "the sequence of cases run in one process, the violation appears at 'case'",
                           "replay": "./check %s --replay %s" % (pid, path)}, f, indent=1)
            r1 = replay_in_subprocess(pid, path)
            r2 = replay_in_subprocess(pid, path)
        if r1 != r2 or key not in [k for k, _ in r1]:
            print("INTERNAL ERROR: replay of %s not reproducible: %s vs %s" % (path, r1, r2))
            return 2
        out_lines.append("VIOLATION property=%s replay=%s" % (pid, path))
        rc = 1

    rnd = random.Random(seed)
    samples = acc.samples if len(acc.samples) <= 6 else rnd.sample(acc.samples, 6)
    if not samples:       # e.g. every case raised: show the first violating case(s) instead of nothing
        samples = [{"first_case_of_violation_class": k, "case": v[1]} for k, v in list(acc.viol.items())[:3]] or \
                  [{"note": "the check recorded no sample case", "bounds": jsonable(mod.bounds(tier))}]
    cov = {
        "evaluations": acc.evaluations,
        "cases": acc.cases,
        "distinct_nontrivial": acc.nontrivial,
        "rule": mod.RULE,
        "samples": samples,
        "distinct_outcomes": len(acc.outcomes),
        "exhaustive": True,
        "bounds": jsonable(mod.bounds(tier)),
        "shards": nshards,
        "counters": jsonable(acc.extra),
        "violation_classes": {k: {"count": v[0], "first_case": v[1], "listed_as_known": k in known}
                              for k, v in acc.viol.items()},
    }
    if mod.LEVEL == "model_checking":
        cov.update(states=acc.states, transitions=acc.transitions, max_depth=acc.max_depth,
                   traces_validated_against_impl=acc.transitions)
    ev = {"property_id": pid, "tier": tier, "seed": seed, "level": mod.LEVEL, "coverage": cov,
          "assumptions": list(mod.ASSUMPTIONS), "wall_s": round(time.time() - t0, 2),
          "violations": len(new)}
    try:
        import jsonschema
        with open(EVIDENCE_SCHEMA) as f:
            jsonschema.validate(ev, json.load(f))
    except FileNotFoundError:
        pass
    os.makedirs(os.path.join(OUT, "evidence"), exist_ok=True)
    with open(os.path.join(OUT, "evidence", pid + ".json"), "w") as f:
        json.dump(ev, f, indent=1)
    print("%s %s seed=%d: cases=%d evaluations=%d nontrivial=%d states=%d transitions=%d outcomes=%d "
          "violation_classes=%d (known %d) wall=%.1fs" % (pid, tier, seed, acc.cases, acc.evaluations, acc.nontrivial,
                                                         acc.states, acc.transitions, len(acc.outcomes),
                                                         len(acc.viol), len(listed), time.time() - t0))
    for k, v in sorted(acc.extra.items()):
        print("   %s = %s" % (k, v))
    for line in out_lines:
        print(line)
    return rc


if __name__ == "__main__":
    sys.exit(main(sys.argv[1:]))
