"""Rebuild pylife.rainflow_ext from the *current* /repo working tree.

The compiled kernel shipped in /repo/src/pylife is git-ignored; an edit of extension.pyx would not reach
it.  ensure() cythonizes and compiles the current extension.pyx into /verif/build/ext/<sha256>/ (cached by
source hash), loads it as ``pylife.rainflow_ext`` and installs it in sys.modules *before*
pylife.stress.rainflow is imported, so the detectors under test run the kernel of the working tree.
"""
import glob
import hashlib
import importlib.machinery
import importlib.util
import os
import shutil
import subprocess
import sys
import sysconfig

VERIF = os.path.dirname(os.path.dirname(os.path.abspath(__file__)))
REPO = os.environ.get("VERIF_REPO", "/repo")
PYX = os.path.join(REPO, "src/pylife/stress/rainflow/extension.pyx")


class BuildError(RuntimeError):
    pass


def _build(src, outdir):
    tmp = outdir + ".tmp%d" % os.getpid()
    shutil.rmtree(tmp, ignore_errors=True)
    os.makedirs(tmp)
    shutil.copy(src, os.path.join(tmp, "rainflow_ext.pyx"))
    import numpy
    r = subprocess.run([sys.executable, "-m", "cython", "-3", "rainflow_ext.pyx"], cwd=tmp, capture_output=True, text=True)
    if r.returncode:
        raise BuildError("cython failed:\n" + r.stdout + r.stderr)
    suffix = sysconfig.get_config_var("EXT_SUFFIX")
    so = "rainflow_ext" + suffix
    cmd = ["gcc", "-shared", "-fPIC", "-O2", "-fwrapv", "-I", sysconfig.get_paths()["include"],
           "-I", numpy.get_include(), "rainflow_ext.c", "-o", so]
    r = subprocess.run(cmd, cwd=tmp, capture_output=True, text=True)
    if r.returncode:
        raise BuildError("gcc failed:\n" + r.stderr[-4000:])
    os.remove(os.path.join(tmp, "rainflow_ext.c"))
    try:
        os.rename(tmp, outdir)
    except OSError:          # lost a race against another process building the same hash
        shutil.rmtree(tmp, ignore_errors=True)
    return os.path.join(outdir, so)


def ensure():
    if "pylife.rainflow_ext" in sys.modules and getattr(sys.modules["pylife.rainflow_ext"], "_verif_built", False):
        return sys.modules["pylife.rainflow_ext"].__file__
    if "pylife.stress.rainflow" in sys.modules:
        raise BuildError("pylife.stress.rainflow imported before build_ext.ensure()")
    with open(PYX, "rb") as f:
        digest = hashlib.sha256(f.read()).hexdigest()[:20]
    base = os.path.join(VERIF, "build", "ext")
    outdir = os.path.join(base, digest)
    hits = glob.glob(os.path.join(outdir, "rainflow_ext*.so"))
    if hits:
        so = hits[0]
    else:
        os.makedirs(base, exist_ok=True)
        # keep the cache small: drop builds of other source versions
        for d in glob.glob(os.path.join(base, "*")):
            if os.path.basename(d) != digest and ".tmp" not in d:
                shutil.rmtree(d, ignore_errors=True)
        so = _build(PYX, outdir)
    import pylife  # noqa: F401  (package first, then the freshly built submodule)
    loader = importlib.machinery.ExtensionFileLoader("pylife.rainflow_ext", so)
    spec = importlib.util.spec_from_file_location("pylife.rainflow_ext", so, loader=loader)
    mod = importlib.util.module_from_spec(spec)
    loader.exec_module(mod)
    mod._verif_built = True
    sys.modules["pylife.rainflow_ext"] = mod
    pylife.rainflow_ext = mod
    return so
