"""Bookkeeping shared by all checks: accumulator for one shard of an exhaustive enumeration,
merging, hashing, small enumeration helpers.

A *check module* (mc/checks/cNN.py) provides

    ID, LEVEL ('model_checking' | 'exploration'), RULE (str), ASSUMPTIONS (list of str)
    bounds(tier) -> dict            stated bounds of the enumerated space (goes to evidence)
    shards(tier) -> list            picklable shard descriptors that *partition* the space
    run_shard(shard) -> Acc         explores one shard completely on the real code
    replay(case) -> list[(key, detail)]   re-executes exactly one case, no explorer

Nothing here samples: a shard is enumerated to its end or the run aborts.
"""
import hashlib
import itertools
import json
import math

import numpy as np

MAX_SAMPLES = 6


def jsonable(o):
    if isinstance(o, dict):
        return {str(k): jsonable(v) for k, v in o.items()}
    if isinstance(o, (list, tuple, set, frozenset)):
        return [jsonable(v) for v in o]
    if isinstance(o, np.ndarray):
        return jsonable(o.tolist())
    if isinstance(o, (np.integer,)):
        return int(o)
    if isinstance(o, (np.floating, float)):
        f = float(o)
        if math.isnan(f):
            return "nan"
        if math.isinf(f):
            return "inf" if f > 0 else "-inf"
        return f
    if isinstance(o, (np.bool_,)):
        return bool(o)
    if isinstance(o, (str, int, bool)) or o is None:
        return o
    return repr(o)


def h64(obj):
    """Stable 64-bit hash of a canonical (json-able) object."""
    s = json.dumps(jsonable(obj), sort_keys=True, separators=(",", ":"))
    return int.from_bytes(hashlib.blake2b(s.encode(), digest_size=8).digest(), "big")


class Acc:
    """Counters of one shard (or of the merged run)."""

    def __init__(self):
        self.evaluations = 0      # executions of pyLife code
        self.cases = 0            # enumerated cases
        self.nontrivial = 0       # distinct cases that are non-trivial by the module's RULE
        self.states = 0           # history-search checks: distinct canonical states
        self.state_set = set()    # optional: hashes of canonical states (merged exactly; overrides `states` if used)
        self.transitions = 0      # history-search checks: real method calls taken as transitions
        self.max_depth = 0
        self.outcomes = set()     # hashes of observed outcomes (vacuity guard)
        self.viol = {}            # key -> [count, first_case, detail]
        self.samples = []
        self.extra = {}           # free counters (per class counts, skipped, ...)

    # -- recording -------------------------------------------------------------------------
    def outcome(self, obj):
        self.outcomes.add(h64(obj))

    def violation(self, key, case, detail):
        v = self.viol.get(key)
        if v is None:
            self.viol[key] = [1, jsonable(case), jsonable(detail)]
        else:
            v[0] += 1

    def sample(self, case):
        if len(self.samples) < MAX_SAMPLES:
            self.samples.append(jsonable(case))

    def count(self, name, n=1):
        self.extra[name] = self.extra.get(name, 0) + n

    # -- merging (shards are merged in enumeration order, so the first case stays the first) --
    def merge(self, other):
        self.evaluations += other.evaluations
        self.cases += other.cases
        self.nontrivial += other.nontrivial
        self.states += other.states
        self.transitions += other.transitions
        self.max_depth = max(self.max_depth, other.max_depth)
        self.outcomes |= other.outcomes
        self.state_set |= other.state_set
        for k, v in other.viol.items():
            if k in self.viol:
                self.viol[k][0] += v[0]
            else:
                self.viol[k] = list(v)
        self.samples.extend(other.samples)
        for k, v in other.extra.items():
            if isinstance(v, (int, float)):
                self.extra[k] = self.extra.get(k, 0) + v
            else:
                self.extra.setdefault(k, v)


def compositions(n):
    """All compositions of n (ordered lists of positive chunk lengths), simplest (one piece) first."""
    for mask in range(1 << (n - 1)):
        out, last = [], 0
        for i in range(n - 1):
            if mask >> i & 1:
                out.append(i + 1 - last)
                last = i + 1
        out.append(n - last)
        yield out


def signals(alphabet, nmin, nmax):
    for n in range(nmin, nmax + 1):
        yield from itertools.product(alphabet, repeat=n)


def chunked(seq, size):
    seq = list(seq)
    return [seq[i:i + size] for i in range(0, len(seq), size)]


def close(a, b, rtol=1e-9, atol=0.0):
    """Scalar/array closeness where nan==nan and inf==inf."""
    a = np.asarray(a, dtype=float)
    b = np.asarray(b, dtype=float)
    if a.shape != b.shape:
        return False
    return bool(np.all(np.isclose(a, b, rtol=rtol, atol=atol, equal_nan=True)))
