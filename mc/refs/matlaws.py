"""Reference formulas for C16 (plain `math`; no numpy, no pyLife).

Ramberg-Osgood:  eps = s/E + sign(s) (|s|/K)^(1/n);  d eps/d s = 1/E + (|s|/K)^(1/n - 1) / (n K)
Hooke (isotropic, engineering shear strains g = 2 eps_ij):
    eps_ii = (s_ii - nu (s_jj + s_kk)) / E,   g_ij = s_ij / G,     G = E / (2 (1 + nu)),   K = E / (3 (1 - 2 nu))
    s_ii   = 2 G eps_ii + lam tr(eps),        s_ij = G g_ij,       lam = E nu / ((1 + nu) (1 - 2 nu))
"""
import math


def ro_strain(E, K, n, s):
    a = abs(s)
    return math.copysign(a / E + (a / K) ** (1.0 / n), s) if s != 0 else 0.0


def ro_compliance(E, K, n, s):
    a = abs(s)
    if a == 0.0:
        return 1.0 / E
    return 1.0 / E + (a / K) ** (1.0 / n - 1.0) / (n * K)


def ro_stress(E, K, n, e):
    """Inverse of ro_strain by bisection down to neighbouring floats (eps is strictly increasing)."""
    a = abs(e)
    if a == 0.0:
        return 0.0
    lo, hi = 0.0, min(E * a, K * a ** n)     # eps >= s/E and eps >= (s/K)^(1/n)  =>  s <= both
    hi = hi * (1.0 + 1e-12) + 1e-300
    for _ in range(300):
        mid = 0.5 * (lo + hi)
        if mid <= lo or mid >= hi:
            break
        if ro_strain(E, K, n, mid) < a:
            lo = mid
        else:
            hi = mid
    return math.copysign(0.5 * (lo + hi), e)


def shear_modulus(E, nu):
    return E / (2.0 * (1.0 + nu))


def bulk_modulus(E, nu):
    return E / (3.0 * (1.0 - 2.0 * nu))


def hooke3d_strain(E, nu, s):
    """s = (s11, s22, s33, s12, s13, s23) -> (e11, e22, e33, g12, g13, g23)"""
    s11, s22, s33, s12, s13, s23 = s
    G = shear_modulus(E, nu)
    return ((s11 - nu * (s22 + s33)) / E, (s22 - nu * (s11 + s33)) / E, (s33 - nu * (s11 + s22)) / E,
            s12 / G, s13 / G, s23 / G)


def hooke3d_stress(E, nu, e):
    """e = (e11, e22, e33, g12, g13, g23) -> (s11, s22, s33, s12, s13, s23)   (Lame form)"""
    e11, e22, e33, g12, g13, g23 = e
    G = shear_modulus(E, nu)
    lam = E * nu / ((1.0 + nu) * (1.0 - 2.0 * nu))
    tr = e11 + e22 + e33
    return (2 * G * e11 + lam * tr, 2 * G * e22 + lam * tr, 2 * G * e33 + lam * tr, G * g12, G * g13, G * g23)


def plane_stress_e33(E, nu, e11, e22):
    """Out-of-plane strain that makes s33 = 0 in the 3D law."""
    return -nu / (1.0 - nu) * (e11 + e22)
