"""Reference model for C13: what an aligned pair of operands must look like, by dict look-up.

Plain Python, no pandas, no pyLife.  An operand is described by a *table*

    {"names": [level names, None allowed], "rows": [key tuples], "cols": [column labels], "values": [[floats per col] per row]}

(a Series has one column).  Levels are identified by their name; an unnamed level is a level of its own
(never shared with any other level) and is identified by the operand that owns it.
"""
import itertools
import math


def level_ids(names, owner):
    """Identity of each level: the name, or ('unnamed', owner, running number) for None."""
    out, k = [], 0
    for n in names:
        if n is None:
            out.append(("unnamed", owner, k))
            k += 1
        else:
            out.append(n)
    return out


def relation(obj_ids, prm_ids):
    so, sp = set(obj_ids), set(prm_ids)
    if so == sp:
        return "equal-names" if list(obj_ids) == list(prm_ids) else "equal-names-reordered"
    if not (so & sp):
        return "disjoint-names"
    if so < sp:
        return "object-names-contained"
    if sp < so:
        return "parameter-names-contained"
    return "overlapping-names"


def restrict(row, ids, wanted):
    return tuple(row[ids.index(i)] for i in wanted)


def shared_keys(table_rows, ids, shared):
    return {restrict(r, ids, shared) for r in table_rows}


def in_scope(obj, prm):
    """The property's quantifier: partially overlapping name sets only with every shared-level key present in both."""
    oi, pi = level_ids(obj["names"], "obj"), level_ids(prm["names"], "prm")
    if relation(oi, pi) != "overlapping-names":
        return True
    shared = [i for i in oi if i in pi]
    return shared_keys(obj["rows"], oi, shared) == shared_keys(prm["rows"], pi, shared)


def positions_coincide(obj, prm):
    """Input class named by the property ("keys whose positions coincide"): numbering the keys of every level in order
    of first appearance (object rows first, then parameter rows) gives both operands the same table of numbers although
    their level names differ."""
    oi, pi = level_ids(obj["names"], "obj"), level_ids(prm["names"], "prm")
    if list(oi) == list(pi) or len(oi) != len(pi) or len(obj["rows"]) != len(prm["rows"]):
        return False
    rank = {}
    for ids, rows in ((oi, obj["rows"]), (pi, prm["rows"])):
        for r in rows:
            for i, k in zip(ids, r):
                d = rank.setdefault(i, {})
                d.setdefault(k, len(d))
    co = [tuple(rank[i][k] for i, k in zip(oi, r)) for r in obj["rows"]]
    cp = [tuple(rank[i][k] for i, k in zip(pi, r)) for r in prm["rows"]]
    return co == cp


def _same_value(a, b):
    if isinstance(a, float) and math.isnan(a):
        return isinstance(b, float) and math.isnan(b)
    return a == b


def _isnan(x):
    return isinstance(x, float) and math.isnan(x)


def _result_level_assignments(res_names, obj_ids, prm_ids):
    """All ways to read the result's levels as the operands' levels (named levels by name; the unnamed result levels in
    every order over the operands' unnamed levels).  Yields lists of ids, or nothing if the level sets cannot match."""
    unnamed = [i for i in list(obj_ids) + [p for p in prm_ids if p not in obj_ids] if isinstance(i, tuple)]
    named = [i for i in list(obj_ids) + [p for p in prm_ids if p not in obj_ids] if not isinstance(i, tuple)]
    res_named = [n for n in res_names if n is not None]
    if sorted(map(str, res_named)) != sorted(map(str, named)) or len(res_names) - len(res_named) != len(unnamed):
        return
    for perm in itertools.permutations(unnamed):
        it = iter(perm)
        yield [n if n is not None else next(it) for n in res_names]


def judge_alignment(obj, prm, res_obj, res_prm, shared_unnamed=False):
    """Compare the returned tables with the property.  Returns a list of (clause, detail); empty = holds.

    Clauses: result-indices-differ (reported alone: without a common index there is nothing else to judge),
             result-levels, columns-changed-<obj|prm>, wrong-value-<obj|prm>, value-where-no-key-<obj|prm>,
             nan-where-key-exists-<obj|prm>, rows-missing-<union|cross-product|matching-rows>.
    """
    out = []
    if res_obj["names"] != res_prm["names"] or res_obj["rows"] != res_prm["rows"]:
        return [("result-indices-differ", {"object": [res_obj["names"], res_obj["rows"]], "parameter": [res_prm["names"], res_prm["rows"]]})]
    # shared_unnamed: the second reading of "unnamed levels" - the k-th unnamed level of the object and the k-th unnamed
    # level of the parameter are the same level (the property does not say which reading holds)
    oi, pi = level_ids(obj["names"], "shared" if shared_unnamed else "obj"), level_ids(prm["names"], "shared" if shared_unnamed else "prm")
    for res, tag in ((res_obj, "obj"), (res_prm, "prm")):
        assignments = list(_result_level_assignments(res["names"], oi, pi))
        if not assignments:
            out.append(("result-levels", {"which": tag, "result": res["names"], "object": obj["names"], "parameter": prm["names"]}))
            continue
        found = None
        for ids in assignments:
            f = _judge_rows(obj, prm, oi, pi, res, tag, ids)
            if found is None or len(f) < len(found):
                found = f
            if not f:
                break
        out.extend(found)
    return out


def _judge_rows(obj, prm, oi, pi, res, tag, ids):
    out = []
    orig, own = (obj, oi) if tag == "obj" else (prm, pi)
    series = "<series>" in list(res["cols"]) + list(orig["cols"])       # one unnamed column: labels carry no information
    if len(res["cols"]) != len(orig["cols"]) or (not series and list(res["cols"]) != list(orig["cols"])):
        return [("columns-changed-%s" % tag, {"result": res["cols"], "original": orig["cols"]})]
    table = {tuple(r): v for r, v in zip(orig["rows"], orig["values"])}
    for r, vals in zip(res["rows"], res["values"]):
        key = restrict(r, ids, own)
        exp = table.get(key)
        if exp is None:
            if not all(_isnan(v) for v in vals):
                out.append(("value-where-no-key-%s" % tag, {"result_row": r, "restricted_key": key, "got": vals}))
                break
        elif not all(_same_value(g, e) for g, e in zip(vals, exp)):
            clause = "nan-where-key-exists-%s" % tag if all(_isnan(v) for v in vals) else "wrong-value-%s" % tag
            out.append((clause, {"result_row": r, "restricted_key": key, "got": vals, "expected": exp}))
            break
    # completeness
    rel = relation(oi, pi)
    other_ids = pi if tag == "obj" else oi
    have_full = {restrict(r, ids, list(oi) + [p for p in pi if p not in oi]) for r in res["rows"]}
    all_ids = list(oi) + [p for p in pi if p not in oi]
    if rel in ("equal-names", "equal-names-reordered"):
        want = {restrict(r, oi, all_ids) for r in obj["rows"]} | {restrict(r, pi, all_ids) for r in prm["rows"]}
        missing = sorted(want - have_full, key=repr)
        if missing:
            out.append(("rows-missing-union", {"which": tag, "missing_keys": missing, "levels": [str(i) for i in all_ids]}))
    elif rel == "disjoint-names":
        want = {tuple(ro) + tuple(rp) for ro in obj["rows"] for rp in prm["rows"]}
        missing = sorted(want - have_full, key=repr)
        if missing:
            out.append(("rows-missing-cross-product", {"which": tag, "missing_keys": missing, "levels": [str(i) for i in all_ids]}))
    else:
        shared = [i for i in oi if i in pi]
        for which, t, tids, o, oids in (("obj", obj, oi, prm, pi), ("prm", prm, pi, obj, oi)):
            others = shared_keys(o["rows"], oids, shared)
            have = {restrict(r, ids, tids) for r in res["rows"]}
            missing = [r for r in t["rows"] if restrict(r, tids, shared) in others and tuple(r) not in have]
            if missing:
                out.append(("rows-missing-matching-rows", {"which": tag, "operand": which, "missing_rows": missing}))
                break
    return out


def judge_record(obj, prm_rows_names, res_obj, n_rows=None):
    """A Series object taken as a record (documented for an unnamed single level index / array parameters): the
    returned object has one column per key of the record and every row carries the record's values."""
    out = []
    keys = [r[0] if len(r) == 1 else tuple(r) for r in obj["rows"]]
    if sorted(map(repr, res_obj["cols"])) != sorted(map(repr, keys)):
        return [("record-columns", {"result_columns": res_obj["cols"], "record_keys": keys})]
    if n_rows is not None and len(res_obj["rows"]) != n_rows:
        out.append(("record-row-count", {"rows": len(res_obj["rows"]), "expected": n_rows}))
    col_of = {repr(c): j for j, c in enumerate(res_obj["cols"])}
    for r, vals in zip(res_obj["rows"], res_obj["values"]):
        for k, v in zip(keys, obj["values"]):
            if not _same_value(vals[col_of[repr(k)]], v[0]):
                out.append(("record-wrong-value", {"row": r, "key": k, "got": vals[col_of[repr(k)]], "expected": v[0]}))
                return out
    return out


def unmatched_rows(obj, prm, res):
    """(kept, dropped): rows of either operand whose shared-level key does not occur in the other operand and that are /
    are not represented in the result.  The property is silent about them; the check only counts them."""
    oi, pi = level_ids(obj["names"], "obj"), level_ids(prm["names"], "prm")
    if relation(oi, pi) not in ("object-names-contained", "parameter-names-contained", "overlapping-names"):
        return 0, 0
    assignments = list(_result_level_assignments(res["names"], oi, pi))
    if not assignments:
        return 0, 0
    ids = assignments[0]
    shared = [i for i in oi if i in pi]
    kept = dropped = 0
    for t, tids, o, oids in ((obj, oi, prm, pi), (prm, pi, obj, oi)):
        others = shared_keys(o["rows"], oids, shared)
        have = {restrict(r, ids, tids) for r in res["rows"]}
        for r in t["rows"]:
            if restrict(r, tids, shared) not in others:
                if tuple(r) in have:
                    kept += 1
                else:
                    dropped += 1
    return kept, dropped
