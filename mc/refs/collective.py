"""Reference bookkeeping for load collectives and histograms (C14).  Plain Python lists, no pandas, no pyLife."""
import math

INF = float("inf")


def derived(rows):
    """rows: [(from, to)] -> dict of lists amplitude, mean, upper, lower, R.

    R = lower / upper; 0/0 is 0 (that is what pyLife defines), x/0 is +-inf by the IEEE sign rules."""
    out = {"amplitude": [], "mean": [], "upper": [], "lower": [], "R": []}
    for f, t in rows:
        up, lo = (f, t) if f >= t else (t, f)
        out["amplitude"].append((up - lo) / 2.0)
        out["mean"].append((up + lo) / 2.0)
        out["upper"].append(up)
        out["lower"].append(lo)
        out["R"].append(ratio(lo, up))
    return out


def ratio(lo, up):
    """lower / upper in IEEE arithmetic (signed zero: -1 / -0.0 = +inf), with 0/0 defined as 0."""
    if up == 0.0:
        if lo == 0.0:
            return 0.0
        sign = (1.0 if lo > 0 else -1.0) * math.copysign(1.0, up)
        return INF * sign
    return lo / up


def class_of(v, edges):
    """numpy's convention: classes [e0, e1), [e1, e2), ..., [e_{n-1}, e_n] ; None when v is outside [e0, e_n]."""
    n = len(edges) - 1
    if n < 1 or v < edges[0] or v > edges[-1] or math.isnan(v):
        return None
    for k in range(n):
        if v < edges[k + 1]:
            return k
    return n - 1


def hist1d(values, edges):
    counts = [0] * (len(edges) - 1)
    inside = 0
    for v in values:
        k = class_of(v, edges)
        if k is not None:
            counts[k] += 1
            inside += 1
    return counts, inside


def hist2d(xs, ys, xedges, yedges):
    nx, ny = len(xedges) - 1, len(yedges) - 1
    counts = [[0] * ny for _ in range(nx)]
    inside = 0
    for x, y in zip(xs, ys):
        i, j = class_of(x, xedges), class_of(y, yedges)
        if i is not None and j is not None:
            counts[i][j] += 1
            inside += 1
    return counts, inside


def gap_free(edges_list):
    """edges_list: [(left, right)] in order."""
    return all(edges_list[i][1] == edges_list[i + 1][0] and edges_list[i][0] < edges_list[i][1] for i in range(len(edges_list) - 1)) \
        and all(l < r for l, r in edges_list)


def covers(target_edges, source_edges):
    return target_edges[0] <= source_edges[0] and target_edges[-1] >= source_edges[-1]


def refines(fine, coarse):
    """every edge of `coarse` is an edge of `fine` and both span the same range."""
    return fine[0] == coarse[0] and fine[-1] == coarse[-1] and all(e in fine for e in coarse)
