"""Executable definitions for rainflow counting; plain Python lists, no numpy, no code shared with pyLife."""


def turning_points(sig):
    """[(index, value)]: first sample, interior reversals (first sample of a plateau), last sample.

    A signal of length 1 has the single point; a constant signal has first and last sample."""
    n = len(sig)
    if n == 0:
        return []
    if n == 1:
        return [(0, sig[0])]
    out = [(0, sig[0])]
    out.extend(interior_reversals(sig))
    out.append((n - 1, sig[n - 1]))
    return out


def interior_reversals(sig):
    """[(index, value)] of samples where the direction of the signal changes; plateau -> its first sample."""
    n = len(sig)
    out = []
    i = 1
    while i < n - 1:
        j = i
        while j + 1 < n and sig[j + 1] == sig[i]:
            j += 1
        # plateau sig[i..j]; it is a reversal if the signal arrives and leaves in opposite directions
        if j + 1 < n and sig[i] != sig[i - 1]:
            before = sig[i] - sig[i - 1]
            after = sig[j + 1] - sig[j]
            if before * after < 0:
                out.append((i, sig[i]))
        i = j + 1
    return out


def four_point(tp):
    """Textbook four-point rule on the turning-point list [(index, value)].

    Repeatedly remove the left-most quadruple a,b,c,d of consecutive remaining points with
    |b-c| <= |a-b| and |b-c| <= |c-d|; b->c is a cycle.  Deliberately coded as a rescan from the left
    of a growing prefix (streaming semantics: a point takes part only after all earlier closings)."""
    cycles = []
    stack = []
    for p in tp:
        stack.append(p)
        changed = True
        while changed:
            changed = False
            # only the last four can newly satisfy the rule after appending one point
            if len(stack) >= 4:
                a, b, c, d = stack[-4], stack[-3], stack[-2], stack[-1]
                ab, bc, cd = abs(a[1] - b[1]), abs(b[1] - c[1]), abs(c[1] - d[1])
                if bc <= ab and bc <= cd:
                    cycles.append((b, c))
                    del stack[-3:-1]
                    changed = True
    return cycles, stack


def four_point_rescan(tp):
    """The same rule without any stack discipline: grow the prefix one point at a time and, after each new
    point, rescan the whole remaining list from the left until no quadruple closes.  Used to cross-check
    four_point() itself (both are references; they must agree on the whole enumerated space)."""
    cycles = []
    rem = []
    for p in tp:
        rem.append(p)
        again = True
        while again:
            again = False
            for i in range(len(rem) - 3):
                a, b, c, d = rem[i:i + 4]
                if abs(b[1] - c[1]) <= abs(a[1] - b[1]) and abs(b[1] - c[1]) <= abs(c[1] - d[1]):
                    cycles.append((b, c))
                    del rem[i + 1:i + 3]
                    again = True
                    break
    return cycles, rem


def hcm(reversals):
    """Clormann-Seeger HCM on a list of reversal values.  Returns (cycles [(from,to)], residuals)."""
    res = []
    ir = 1
    cycles = []
    for k in reversals:
        while True:
            iz = len(res)
            if iz > ir:
                i, j = res[-2], res[-1]
                if abs(k - j) >= abs(j - i):
                    cycles.append((i, j))
                    res.pop()
                    res.pop()
                    continue
            elif iz == ir:
                j = res[-1]
                if abs(k) > abs(j):
                    ir += 1
            break
        res.append(k)
    return cycles, res
