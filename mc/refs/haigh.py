"""Reference model of a Haigh diagram (C12): exact rational walk along the iso-damage line.

Plain Python, no pandas, no pyLife code.  A Haigh diagram is looked at in the (mean S_m, amplitude S_a) plane.
A ray of constant R through the origin has slope t = S_m / S_a = (1 + R) / (1 - R):

    R -> 1 from above : t -> -inf          (compression-compression, R > 1:  t < -1)
    R = +-inf          : t = -1             (upper load = 0)
    R = -1             : t = 0
    R = 0              : t = 1
    R -> 1 from below  : t -> +inf

so in t the segments of a gap-free diagram are simply ordered:  (1, inf) | (-inf, 0) | (0, R12) | ... | (.., 1).
Inside a segment with mean stress sensitivity M the iso-damage line is  S_a + M * S_m = const; it is continuous
across segment borders.  All arithmetic is done on `fractions.Fraction` of the *float* inputs, so "the exact
iso-damage amplitude stays positive" is decided exactly.
"""
from fractions import Fraction as Fr

INF = float("inf")


def t_of_R(R):
    """Slope S_m/S_a of the ray of constant R (R != 1)."""
    if R == INF or R == -INF:
        return Fr(-1)
    R = Fr(R)
    if R == 1:
        raise ValueError("R = 1 has no finite ray")
    return (1 + R) / (1 - R)


def goodman(M, M2):
    """[(t_lo, t_hi, slope)] ordered in t; None = unbounded."""
    return [(None, Fr(-1), Fr(0)), (Fr(-1), Fr(1), Fr(M)), (Fr(1), None, Fr(M2))]


def five_segment(M0, M1, M2, M3, M4, R12, R23):
    t12, t23 = t_of_R(R12), t_of_R(R23)
    return [(None, Fr(-1), Fr(M4)), (Fr(-1), Fr(1), Fr(M0)), (Fr(1), t12, Fr(M1)), (t12, t23, Fr(M2)), (t23, None, Fr(M3))]


def borders(diagram):
    return [seg[1] for seg in diagram[:-1]]


def _segment_of(diagram, t, towards):
    """Index of the segment holding ray t; a ray exactly on a border is given to the side facing `towards`."""
    for i, (lo, hi, _) in enumerate(diagram):
        if hi is None or t < hi:
            return i
        if t == hi:
            return i if towards <= t else i + 1
    raise AssertionError


def segment_index(diagram, Sa, Sm):
    t = Fr(Sm) / Fr(Sa)
    return _segment_of(diagram, t, t)


def goal_segment_index(diagram, R_goal):
    t = t_of_R(R_goal)
    return _segment_of(diagram, t, t)


def iso_amplitude(diagram, Sa, Sm, R_goal):
    """Exact amplitude (Fraction) of the point with ratio R_goal on the iso-damage line through (Sm, Sa).

    Returns None when the line leaves the region of positive amplitude on the way (such cycles are excluded
    by the property)."""
    Sa, Sm = Fr(Sa), Fr(Sm)
    if Sa <= 0:
        return None
    t = Sm / Sa
    tg = t_of_R(R_goal)
    i = _segment_of(diagram, t, tg)
    while True:
        lo, hi, M = diagram[i]
        if 1 + M * t <= 0:                      # const of the line not positive: no positive iso-damage line here
            return None
        inside = (lo is None or tg >= lo) and (hi is None or tg <= hi)
        nxt = tg if inside else (hi if tg > t else lo)
        if 1 + M * nxt <= 0:
            return None
        Sa = Sa * (1 + M * t) / (1 + M * nxt)
        t = nxt
        if inside:
            return Sa
        i += 1 if tg > t else -1


def goodman_closed_form(Sa, Sm, M, M2, R_goal):
    """The textbook FKM-Goodman formula, written out region by region (independent of iso_amplitude)."""
    Sa, Sm, M, M2 = Fr(Sa), Fr(Sm), Fr(M), Fr(M2)
    # amplitude S0 at R = -1 of the line through the cycle
    if Sm < -Sa:                                  # R > 1: horizontal line, meets R = -inf at the same amplitude
        S0 = Sa * (1 - M)
    elif Sm <= Sa:                                # -inf <= R <= 0
        S0 = Sa + M * Sm
    else:                                         # 0 < R < 1: first to R = 0 along M2, then to R = -1 along M
        Sa0 = (Sa + M2 * Sm) / (1 + M2)
        S0 = Sa0 * (1 + M)
    q = t_of_R(R_goal)
    if q < -1:
        return S0 / (1 - M)
    if q <= 1:
        return S0 / (1 + M * q)
    Sa0 = S0 / (1 + M)
    return Sa0 * (1 + M2) / (1 + M2 * q)


def mean_at(amplitude, R):
    """Float mean stress of a cycle of the given amplitude on the ray R."""
    if R == INF or R == -INF:
        return -amplitude
    return amplitude * (1.0 + R) / (1.0 - R)
