"""Reference model for the notch approximation laws of FKM nonlinear (C06, C07) - plain `math`, no numpy,
no pyLife.

Ramberg-Osgood       eps(s)  = s/E + sign(s) (|s|/K')^(1/n')
Masing doubling      deps(ds) = 2 eps(ds/2)
Extended Neuber      (2.5-45)  eps(s) = (L/s) K_p e*           e* = eps(L/K_p)
Seeger-Beste         (2.8-42)  eps(s) = (s/E) [ (L/s)^2 (2/u^2) ln(1/cos u) + 1 - L/s ] (e* E K_p / L)
                               u = (pi/2) (L/s - 1)/(K_p - 1)
Secondary branches (2.5-46 / 2.8-43): the same equations in (delta s, delta L) with eps -> deps.

All roots are computed by bisection down to neighbouring floats on the bracket [L/K_p, L] (forward) resp.
[s, K_p s] (backward), where the equations change sign (shown in the comments below).  Everything is written
for positive arguments; the laws are odd, the caller applies the sign.
"""
import math


def ro_strain(E, K, n, s):
    a = abs(s)
    return math.copysign(a / E + (a / K) ** (1.0 / n), s) if s != 0 else 0.0


def ro_delta_strain(E, K, n, ds):
    return 2.0 * ro_strain(E, K, n, ds / 2.0)


def ro_compliance(E, K, n, s):
    """d eps / d s (analytic)."""
    a = abs(s)
    if a == 0.0:
        return 1.0 / E + (0.0 if n < 1 else 1.0 / K)
    return 1.0 / E + (a / K) ** (1.0 / n - 1.0) / (n * K)


def _curve(E, K, n, secondary):
    if secondary:
        return lambda x: ro_delta_strain(E, K, n, x)
    return lambda x: ro_strain(E, K, n, x)


def _bisect(f, lo, hi):
    """Root of f on [lo, hi], f(lo) <= 0 <= f(hi), down to neighbouring floats."""
    flo, fhi = f(lo), f(hi)
    if flo == 0.0:
        return lo
    if fhi == 0.0:
        return hi
    if not (flo < 0.0 < fhi):
        # analytically f(lo) <= 0 <= f(hi); a wrong sign at one end that is pure rounding noise (elastic regime,
        # root indistinguishable from the end point) is accepted, anything else is an error of the reference
        noise = 1e-9 * max(abs(flo), abs(fhi))
        if flo < 0.0 and abs(fhi) <= noise:
            return hi
        if fhi > 0.0 and abs(flo) <= noise:
            return lo
        raise ArithmeticError("no sign change on bracket [%r, %r]: f = %r, %r" % (lo, hi, flo, fhi))
    for _ in range(200):
        mid = 0.5 * (lo + hi)
        if mid <= lo or mid >= hi:
            break
        if f(mid) < 0.0:
            lo = mid
        else:
            hi = mid
    return 0.5 * (lo + hi)


# ------------------------------------------------------------------------------------------------ Neuber
def neuber_residual(E, K, n, Kp, s, L, secondary=False):
    """s eps(s) - L K_p e*(L)  (eq. 2.5-45 multiplied by s); increasing in s, decreasing in L."""
    eps = _curve(E, K, n, secondary)
    return s * eps(s) - L * Kp * eps(L / Kp)


def neuber_stress(E, K, n, Kp, L, secondary=False):
    """g(L/K_p) = (1/K_p - K_p) L e* <= 0 and g(L) = L (eps(L) - K_p eps(L/K_p)) >= 0 by convexity of eps."""
    if L == 0.0:
        return 0.0
    if Kp == 1.0:
        return L
    return _bisect(lambda s: neuber_residual(E, K, n, Kp, s, L, secondary), L / Kp, L)


def neuber_load(E, K, n, Kp, s, secondary=False):
    if s == 0.0:
        return 0.0
    if Kp == 1.0:
        return s
    return _bisect(lambda L: -neuber_residual(E, K, n, Kp, s, L, secondary), s, Kp * s)


# ------------------------------------------------------------------------------------------------ Seeger-Beste
def _two_over_u2_ln_sec(u):
    """(2/u^2) ln(1/cos u), 0 <= u <= pi/2, stable for small u (series) - limit 1 at u = 0."""
    if u < 1e-2:
        u2 = u * u
        return 1.0 + u2 / 6.0 + 2.0 * u2 * u2 / 45.0 + 17.0 * u2 * u2 * u2 / 1260.0
    c = math.cos(u)
    if c <= 0.0:
        return math.inf
    return -2.0 * math.log(c) / (u * u)


def seegerbeste_residual(E, K, n, Kp, s, L, secondary=False):
    """eps(s) - rhs(s, L) of eq. 2.8-42 (guideline form); for s in [L/K_p, L]."""
    eps = _curve(E, K, n, secondary)
    q = L / s
    u = 0.5 * math.pi * (q - 1.0) / (Kp - 1.0)
    if u < 0.0:
        u = 0.0
    bracket = q * q * _two_over_u2_ln_sec(u) + 1.0 - q
    rhs = (s / E) * bracket * (eps(L / Kp) * E * Kp / L)
    return eps(s) - rhs


def seegerbeste_stress(E, K, n, Kp, L, secondary=False):
    """At s = L: u = 0, bracket = 1, rhs = K_p eps(L/K_p) <= eps(L)  => residual >= 0.
    At s = L/K_p: u = pi/2, ln(1/cos u) -> +inf                      => residual < 0."""
    if L == 0.0:
        return 0.0
    return _bisect(lambda s: seegerbeste_residual(E, K, n, Kp, s, L, secondary), L / Kp, L)


def seegerbeste_load(E, K, n, Kp, s, secondary=False):
    if s == 0.0:
        return 0.0
    return _bisect(lambda L: -seegerbeste_residual(E, K, n, Kp, s, L, secondary), s, Kp * s)


def sign_changes(f, lo, hi, m=64):
    """Number of sign changes of f on an m-point scan of [lo, hi] (uniqueness guard for the bisection)."""
    prev, cnt = None, 0
    for i in range(m + 1):
        v = f(lo + (hi - lo) * i / m)
        sg = (v > 0) - (v < 0)
        if sg != 0:
            if prev is not None and sg != prev:
                cnt += 1
            prev = sg
    return cnt


FORWARD = {"ExtendedNeuber": neuber_stress, "SeegerBeste": seegerbeste_stress}
BACKWARD = {"ExtendedNeuber": neuber_load, "SeegerBeste": seegerbeste_load}
RESIDUAL = {"ExtendedNeuber": neuber_residual, "SeegerBeste": seegerbeste_residual}


def _elastic_in_floats(K, n, x):
    """The plastic strain (x/K)^(1/n) underflows to 0 (loads next to zero): both laws reduce to sigma = L."""
    return (abs(x) / K) ** (1.0 / n) == 0.0


def stress(law, E, K, n, Kp, L, secondary=False):
    """Signed root for a signed load."""
    if L == 0.0:
        return 0.0
    if _elastic_in_floats(K, n, L):
        return L
    return math.copysign(FORWARD[law](E, K, n, Kp, abs(L), secondary), L)


def load(law, E, K, n, Kp, s, secondary=False):
    if s == 0.0:
        return 0.0
    if _elastic_in_floats(K, n, s * Kp):
        return s
    return math.copysign(BACKWARD[law](E, K, n, Kp, abs(s), secondary), s)
