"""Plain reference pieces for C19 (mesh operators).  Shares no code with pyLife.

* structured hexahedral blocks and their conforming 5-/6-tetrahedra decompositions, with perturbed node positions
* id assignments (numberings) and row orders
* boundary nodes of a block, element Jacobian / volume signs (non-degeneracy)
* hot-spot reference: union-find over the entries at/above the threshold, shared-node / shared-element adjacency
"""
import itertools

HEX_CORNERS = [(0, 0, 0), (1, 0, 0), (1, 1, 0), (0, 1, 0), (0, 0, 1), (1, 0, 1), (1, 1, 1), (0, 1, 1)]
OFFSETS = [(0.0, 0.0, 0.0), (0.07, -0.05, 0.03), (-0.04, 0.06, -0.02), (0.05, 0.02, 0.06), (-0.03, -0.04, 0.05)]

# Kuhn decomposition of the unit cube: one tetrahedron per permutation of the axes, all share the main diagonal
KUHN = []
for perm in itertools.permutations(range(3)):
    p = [0, 0, 0]
    tet = [tuple(p)]
    for ax in perm:
        p[ax] = 1
        tet.append(tuple(p))
    KUHN.append(tet)
# five-tetrahedra decomposition (four corner tets + the central one); mirrored in x for odd cells => conforming
FIVE = [[(0, 0, 0), (1, 0, 0), (0, 1, 0), (0, 0, 1)], [(1, 1, 0), (0, 1, 0), (1, 0, 0), (1, 1, 1)],
        [(1, 0, 1), (1, 0, 0), (0, 0, 1), (1, 1, 1)], [(0, 1, 1), (0, 0, 1), (0, 1, 0), (1, 1, 1)],
        [(1, 0, 0), (0, 1, 0), (0, 0, 1), (1, 1, 1)]]


SPACINGS = [(1.0, 1.0, 1.0), (0.5, 2.0, 1.25)]


def node_pos(i, j, k, pert, shift, spacing=0):
    """Grid node (i,j,k) moved by pert * offset (in cell units), the offset chosen from the table by a node parity
    rule; then the cell spacing (unit or anisotropic) is applied."""
    o = OFFSETS[(i + 2 * j + 3 * k + shift) % 5]
    h = SPACINGS[spacing]
    return ((i + pert * o[0]) * h[0], (j + pert * o[1]) * h[1], (k + pert * o[2]) * h[2])


def det3(a, b, c):
    return (a[0] * (b[1] * c[2] - b[2] * c[1]) - a[1] * (b[0] * c[2] - b[2] * c[0]) + a[2] * (b[0] * c[1] - b[1] * c[0]))


def sub(a, b):
    return (a[0] - b[0], a[1] - b[1], a[2] - b[2])


def block(kind, dims, pert=0.0, shift=0, spacing=0):
    """-> (nodes: {natural id: (x,y,z)}, elements: [list of natural node ids in connectivity order],
           boundary: set of natural node ids on the block surface).  Natural ids run 1..N in grid order."""
    nx, ny, nz = dims

    def nid(i, j, k):
        return 1 + i + (nx + 1) * (j + (ny + 1) * k)
    nodes, boundary = {}, set()
    for k in range(nz + 1):
        for j in range(ny + 1):
            for i in range(nx + 1):
                nodes[nid(i, j, k)] = node_pos(i, j, k, pert, shift, spacing)
                if i in (0, nx) or j in (0, ny) or k in (0, nz):
                    boundary.add(nid(i, j, k))
    elements = []
    for k in range(nz):
        for j in range(ny):
            for i in range(nx):
                if kind == "hex" or (kind == "hextet" and (i + j + k) % 2 == 0):
                    # "hextet": a mixed mesh - even cells are hexahedra, odd cells are split into six tetrahedra
                    elements.append([nid(i + a, j + b, k + c) for a, b, c in HEX_CORNERS])
                    continue
                tets = KUHN if kind in ("tet6", "hextet") else FIVE
                odd = kind == "tet5" and (i + j + k) % 2 == 1
                for tet in tets:
                    # mirror all three axes in odd cells: keeps the diagonals of shared faces matching
                    ids = [nid(i + ((1 - a) if odd else a), j + ((1 - b) if odd else b), k + ((1 - c) if odd else c))
                           for a, b, c in tet]
                    p = [nodes[n] for n in ids]
                    if det3(sub(p[1], p[0]), sub(p[2], p[0]), sub(p[3], p[0])) < 0:
                        ids[2], ids[3] = ids[3], ids[2]
                    elements.append(ids)
    return nodes, elements, boundary


def non_degenerate(nodes, elements):
    """Positive corner Jacobians (hex) / positive volume (tet) for every element."""
    for el in elements:
        p = [nodes[n] for n in el]
        if len(el) == 4:
            if not det3(sub(p[1], p[0]), sub(p[2], p[0]), sub(p[3], p[0])) > 1e-6:
                return False
        else:
            # corner c with its three edge neighbours in right-handed order
            nb = {0: (1, 3, 4), 1: (2, 0, 5), 2: (3, 1, 6), 3: (0, 2, 7), 4: (7, 5, 0), 5: (4, 6, 1), 6: (5, 7, 2), 7: (6, 4, 3)}
            for c, (a, b, d) in nb.items():
                if not det3(sub(p[a], p[c]), sub(p[b], p[c]), sub(p[d], p[c])) > 1e-6:
                    return False
    return True


NUMBERINGS = ("identity", "plus1000", "times10plus5", "reversed", "derangement", "zero_based")


def numbering(name, n):
    """{natural id 1..n -> assigned id}"""
    ids = list(range(1, n + 1))
    if name == "identity":
        new = ids
    elif name == "plus1000":
        new = [i + 1000 for i in ids]
    elif name == "times10plus5":
        new = [i * 10 + 5 for i in ids]
    elif name == "reversed":
        new = [n + 1 - i for i in ids]
    elif name == "derangement":
        new = ids[1:] + ids[:1] if n > 1 else ids            # cyclic shift, then swap neighbours pairwise
        for a in range(0, n - 1, 2):
            new[a], new[a + 1] = new[a + 1], new[a]
    elif name == "zero_based":
        new = [i - 1 for i in ids]
    else:
        raise ValueError(name)
    return dict(zip(ids, new))


ROW_ORDERS = ("given", "reversed_blocks", "interleaved", "shuffled")


def rows_of(elements, order):
    """-> list of (natural element id, natural node id).  All orders but 'shuffled' keep the node order inside
    every element (that order is connectivity)."""
    blocks = [[(e + 1, n) for n in el] for e, el in enumerate(elements)]
    if order == "given":
        return [r for b in blocks for r in b]
    if order == "reversed_blocks":
        return [r for b in reversed(blocks) for r in b]
    if order == "interleaved":
        out = []
        for pos in range(max(len(b) for b in blocks)):
            for b in blocks:
                if pos < len(b):
                    out.append(b[pos])
        return out
    if order == "shuffled":
        rows = [r for b in blocks for r in b]
        n = len(rows)
        step = next(s for s in (7, 11, 13, 17, 19, 23, 29, 31) if n % s != 0) if n > 1 else 1
        return [rows[(3 + i * step) % n] for i in range(n)]
    raise ValueError(order)


# ------------------------------------------------------------------------------------------------ hot spots
def hotspot_reference(rows, values, frac):
    """rows: list of (element id, node id); values: one per row.
    -> (labels per row with ties broken arbitrarily, peaks per label in label order)
    label 0 = below frac * max; components of the other entries under 'same node or same element', numbered by
    descending peak value."""
    mx = max(values)
    sel = [i for i, v in enumerate(values) if v >= frac * mx]
    parent = {i: i for i in sel}

    def find(i):
        while parent[i] != i:
            parent[i] = parent[parent[i]]
            i = parent[i]
        return i
    for i, j in itertools.combinations(sel, 2):
        if rows[i][0] == rows[j][0] or rows[i][1] == rows[j][1]:
            parent[find(i)] = find(j)
    groups = {}
    for i in sel:
        groups.setdefault(find(i), []).append(i)
    ordered = sorted(groups.values(), key=lambda g: (-max(values[i] for i in g), min(g)))
    labels = [0] * len(rows)
    for lab, g in enumerate(ordered, 1):
        for i in g:
            labels[i] = lab
    return labels, [max(values[i] for i in g) for g in ordered]


def same_labelling(got, exp, peaks):
    """Equal, up to a permutation of labels whose components have the same peak value."""
    if len(got) != len(exp):
        return False
    m = {}
    for g, e in zip(got, exp):
        if (g == 0) != (e == 0):
            return False
        if e == 0:
            continue
        if m.setdefault(e, g) != g:
            return False
    if len(set(m.values())) != len(m):
        return False
    for e, g in m.items():
        if g < 1 or g > len(peaks) or peaks[g - 1] != peaks[e - 1]:
            return False
    return True


def incidence_structures(max_elements, max_nodes=4):
    """All sets of <= max_elements distinct elements (node subsets of size 2 or 3) over nodes 1..max_nodes, one
    representative per isomorphism class (node relabelling), smallest first.  -> list of tuples of tuples"""
    pool = [c for size in (2, 3) for c in itertools.combinations(range(1, max_nodes + 1), size)]
    seen, out = set(), []
    for m in range(1, max_elements + 1):
        for combo in itertools.combinations(pool, m):
            best = None
            for perm in itertools.permutations(range(1, max_nodes + 1)):
                mp = dict(zip(range(1, max_nodes + 1), perm))
                c = tuple(sorted(tuple(sorted(mp[n] for n in el)) for el in combo))
                if best is None or c < best:
                    best = c
            if best not in seen:
                seen.add(best)
                out.append(best)
    out.sort(key=lambda s: (sum(len(e) for e in s), len(s), s))
    return out
