"""Closed cycles of an endlessly repeated load sequence (plain Python, no pyLife code).

periodic_cycles(seq): reversals of the cyclically repeated sequence; rotated to start at the reversal of
largest |load|; the period is closed by repeating that reversal; four-point count by rescanning from the
left; the residual [M, m, M] contributes the outer cycle.  Result: Counter of (min, max) pairs.
"""
from collections import Counter


def cyclic_reversals(seq):
    s = [seq[0]]
    for v in seq[1:]:
        if v != s[-1]:
            s.append(v)
    if len(s) > 1 and s[-1] == s[0]:
        s.pop()
    n = len(s)
    if n < 2:
        return []
    out = []
    for i in range(n):
        a, b, c = s[i - 1], s[i], s[(i + 1) % n]
        if (b - a) * (c - b) < 0:
            out.append(b)
    return out


def _four_point(vals):
    pts = list(vals)
    cycles = []
    while True:
        for i in range(len(pts) - 3):
            a, b, c, d = pts[i:i + 4]
            if abs(b - c) <= abs(a - b) and abs(b - c) <= abs(c - d):
                cycles.append((b, c))
                del pts[i + 1:i + 3]
                break
        else:
            break
    return cycles, pts


def periodic_cycles(seq):
    r = cyclic_reversals(list(seq))
    if not r:
        return Counter()
    k = max(range(len(r)), key=lambda i: abs(r[i]))
    rot = r[k:] + r[:k] + [r[k]]
    cyc, res = _four_point(rot)
    if not (len(res) == 3 and res[0] == res[-1]):
        raise AssertionError("periodic residual is not [M, m, M]: %r -> %r" % (seq, res))
    cyc.append((res[0], res[1]))
    return Counter((min(a, b), max(a, b)) for a, b in cyc)


def _last_is_turn(s, following):
    """is the last sample of s (or the plateau it ends) a reversal when `following` comes next?"""
    ext = list(s) + list(following)
    i = len(s) - 1
    j = i
    while j > 0 and ext[j - 1] == ext[i]:
        j -= 1
    k = i
    while k + 1 < len(ext) and ext[k + 1] == ext[i]:
        k += 1
    if j == 0 or k + 1 >= len(ext):
        return False
    return (ext[i] - ext[j - 1]) * (ext[k + 1] - ext[i]) < 0


def hidden_junction_reversal(seq):
    """The last sample is a reversal of the repeated sequence, but would not be one if a zero load followed
    (pyLife decides the flush of pass 1 on [0]+seq followed by [0]+seq)."""
    s = [0.0] + list(seq)
    return _last_is_turn(s, list(seq)) and not _last_is_turn(s, s)


def junction_features(seq):
    """Classification of the junction configuration of a sequence (for per-class coverage counts)."""
    s = list(seq)
    f = []
    if hidden_junction_reversal(s):
        return ["hidden-junction-reversal"]
    first, last = s[0], s[-1]
    if first == 0:
        f.append("first-zero")
    if last == first:
        f.append("last-eq-first")
    elif (0 < last < first) or (first < last < 0):
        f.append("last-between-zero-and-first")
    if len(s) >= 2 and s[-1] == s[-2]:
        f.append("trailing-plateau")
    if len(s) >= 2 and s[0] == s[1]:
        f.append("leading-plateau")
    # is the last sample a reversal of the repeated sequence?
    ext = s + s
    i = len(s) - 1
    j = i
    while j > 0 and ext[j - 1] == ext[i]:
        j -= 1
    k = i
    while k + 1 < len(ext) and ext[k + 1] == ext[i]:
        k += 1
    if j == 0 or k + 1 >= len(ext) or (ext[i] - ext[j - 1]) * (ext[k + 1] - ext[i]) >= 0:
        f.append("last-not-a-reversal")
    return f
