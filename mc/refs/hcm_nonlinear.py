"""Independent reference of the FKM-nonlinear HCM procedure on plain floats (no pyLife control flow).

Semantics
* Pass 1 processes the interior reversals of [0] + seq as continued by seq (the sequence is repeated
  periodically), pass k >= 2 those of the k-th repetition.  A plateau is a reversal at its first sample,
  so a plateau that ends a pass and reverses afterwards belongs to that pass.
* Residual stack with primary-path counter IR (index based, Clormann-Seeger):
    IZ > IR : if |L - L_j| >= |L_j - L_i| the hysteresis (i, j) is closed and removed, re-examine;
              else secondary branch from j                                        (Memory 2)
    IZ == IR: if |L| > L_max: Memory 3 - half hysteresis mirrored about zero from the last residual,
              IR += 1, continue on the primary branch; else secondary branch from the last residual
    IZ < IR : primary branch                                                      (Memory 1)
* Primary branch: sigma = law.stress(L), eps = law.strain(sigma, L).
  Secondary branch from origin o: d_sigma = law.stress_secondary_branch(L - L_o),
  d_eps = law.strain_secondary_branch(d_sigma, L - L_o); point = origin + increment.
* Running strain extremes of the load history: after a rising step eps_max_LF = max(eps_max_LF, eps),
  otherwise eps_min_LF = min(eps_min_LF, eps); both start at 0.  A recorded hysteresis carries the values
  valid *before* the reversal that closes it is entered.
"""
TOL = 1e-12


def reversal_stream(seq, passes=2):
    """Reversal values per pass: list of lists (pass 1 .. passes)."""
    seq = [float(v) for v in seq]
    a = [0.0] + seq * (passes + 1)
    # compress plateaus, remember the first index of each
    idx = [0]
    for i in range(1, len(a)):
        if a[i] != a[idx[-1]]:
            idx.append(i)
    tp = []
    for k in range(1, len(idx) - 1):
        p, c, n = a[idx[k - 1]], a[idx[k]], a[idx[k + 1]]
        if (c - p) * (n - c) < 0:
            tp.append((idx[k], c))
    n = len(seq)
    out = []
    for k in range(passes):
        lo = 0 if k == 0 else 1 + k * n
        hi = 1 + (k + 1) * n
        out.append([v for i, v in tp if lo <= i < hi])
    return out


def _f(x):
    """scalar float from whatever the law returns (float, 0-d/1-element array, Series)"""
    try:
        return float(x)
    except TypeError:
        import numpy as np
        return float(np.asarray(x).ravel()[0])


class HCM:
    def __init__(self, law):
        self.law = law
        self.res = []          # open points (load, stress, strain)
        self.ir = 1
        self.lmax = 0.0
        self.rows = []
        self.eps_min_LF = 0.0
        self.eps_max_LF = 0.0
        self.prev_load = 0.0
        self.strains = []

    def _primary(self, L):
        s = _f(self.law.stress(L))
        e = _f(self.law.strain(s, L))
        return s, e

    def _secondary(self, origin, L):
        dL = L - origin[0]
        ds = _f(self.law.stress_secondary_branch(dL))
        de = _f(self.law.strain_secondary_branch(ds, dL))
        return origin[1] + ds, origin[2] + de

    def _row(self, lo, hi, s_lo, s_hi, e_lo, e_hi, closed, run):
        self.rows.append(dict(loads_min=lo, loads_max=hi, S_min=s_lo, S_max=s_hi, epsilon_min=e_lo, epsilon_max=e_hi,
                              is_closed_hysteresis=closed, is_zero_mean_stress_and_strain=not closed, run_index=run,
                              epsilon_min_LF=self.eps_min_LF, epsilon_max_LF=self.eps_max_LF))

    def feed(self, L, run):
        res = self.res
        while True:
            iz = len(res)
            if iz > self.ir:
                p0, p1 = res[-2], res[-1]
                if abs(L - p1[0]) < abs(p1[0] - p0[0]) - TOL:
                    s, e = self._secondary(p1, L)
                    break
                self._row(min(p0[0], p1[0]), max(p0[0], p1[0]), min(p0[1], p1[1]), max(p0[1], p1[1]),
                          min(p0[2], p1[2]), max(p0[2], p1[2]), True, run)
                res.pop()
                res.pop()
                continue
            if iz == self.ir:
                p = res[-1]
                if abs(L) > self.lmax + TOL:
                    self._row(-abs(p[0]), abs(p[0]), -abs(p[1]), abs(p[1]), -abs(p[2]), abs(p[2]), False, run)
                    self.ir += 1
                    s, e = self._primary(L)
                else:
                    s, e = self._secondary(p, L)
                break
            s, e = self._primary(L)
            break
        if abs(L) > self.lmax + TOL:
            self.lmax = abs(L)
        res.append((L, s, e))
        self.strains.append(e)
        if self.prev_load < L - TOL:
            self.eps_max_LF = max(self.eps_max_LF, e)
        else:
            self.eps_min_LF = min(self.eps_min_LF, e)
        self.prev_load = L


def reference(law, seq, passes=2):
    """rows (list of dicts incl. derived columns), strain values, number of strain values of pass 1"""
    streams = reversal_stream(seq, passes)
    h = HCM(law)
    n1 = None
    for k, stream in enumerate(streams):
        for L in stream:
            h.feed(L, k + 1)
        if k == 0:
            n1 = len(h.strains)
    for r in h.rows:
        zero = r["is_zero_mean_stress_and_strain"]
        r["S_a"] = 0.5 * (r["S_max"] - r["S_min"])
        r["S_m"] = 0.0 if zero else 0.5 * (r["S_max"] + r["S_min"])
        r["epsilon_a"] = 0.5 * (r["epsilon_max"] - r["epsilon_min"])
        r["epsilon_m"] = 0.0 if zero else 0.5 * (r["epsilon_max"] + r["epsilon_min"])
        if zero:
            r["R"] = -1.0
        elif r["S_max"] == 0.0:
            r["R"] = float("nan") if r["S_min"] == 0.0 else (float("inf") if r["S_min"] > 0 else float("-inf"))
        else:
            r["R"] = r["S_min"] / r["S_max"]
    return h.rows, h.strains, n1
