"""Plain reference pieces for C18 (Woehler test-data analysis).  Shares no code with pyLife.

A test series is a list of rows (load, cycles, fracture).  Provided here:

* zones(rows)           the documented zone rule: everything at or below the highest run-out level is the infinite
                        zone, fractures above it are the finite zone, the transition is half way between the highest
                        run-out level and the lowest finite level (0 without run-outs)
* relevant_rows(rows)   the documented "irrelevant pure run-out levels dropped" rule
* loglik_*(...)         log-likelihood of the log-normal Woehler model (DIN 50100 scatter ranges T = 10^(2 z90 s))
"""
import math

Z90x2 = 2.5631031310892007      # 2 * norm.ppf(0.9)


def t_to_std(t):
    return math.log10(t) / Z90x2


def zones(rows):
    """-> (transition, finite row positions, infinite row positions)"""
    runouts = [r[0] for r in rows if not r[2]]
    if not runouts:
        return 0.0, list(range(len(rows))), []
    top = max(runouts)
    finite = [i for i, r in enumerate(rows) if r[2] and r[0] > top]
    infinite = [i for i, r in enumerate(rows) if r[0] <= top]
    if finite:
        trans = (min(rows[i][0] for i in finite) + top) / 2.0
    else:
        lv = sorted(set(r[0] for r in rows))[-2:]
        trans = lv[-1] + (lv[-1] - lv[0]) / 2.0
    return trans, finite, infinite


def relevant_rows(rows):
    frac = set(r[0] for r in rows if r[2])
    pure = sorted(set(r[0] for r in rows if not r[2]) - frac)
    if len(pure) <= 1 or not frac or pure[-1] >= min(frac):
        return list(rows)
    return [r for r in rows if not r[0] < pure[-1]]


def _logpdf(x, mu, s):
    return -0.5 * ((x - mu) / s) ** 2 - math.log(s * math.sqrt(2.0 * math.pi))


def _cdf(x):
    return 0.5 * math.erfc(-x / math.sqrt(2.0))


def loglik_finite(rows, SD, k_1, ND, TN):
    """All fractures, shifted along slope k_1 to the level SD, are log-normal around ND with scatter range TN."""
    try:
        s = t_to_std(TN)
        if not (SD > 0.0 and ND > 0.0 and s > 0.0 and math.isfinite(k_1)):
            return float("nan")
        tot = 0.0
        for load, cycles, fracture in rows:
            if fracture:
                tot += _logpdf(math.log10(cycles) + k_1 * math.log10(load / SD), math.log10(ND), s)
        return tot
    except (ValueError, OverflowError, ZeroDivisionError):
        return float("nan")


def loglik_infinite(rows, SD, TS):
    """Rows of the infinite zone: P(fracture at load L) = Phi(log10(L / SD) / s_S)."""
    try:
        s = abs(t_to_std(TS))
        if not (SD > 0.0 and s > 0.0):
            return float("nan")
        _, _, inf = zones(rows)
        tot = 0.0
        for i in inf:
            load, _, fracture = rows[i]
            z = math.log10(load / SD) / s
            p = _cdf(z) if fracture else _cdf(-z)
            if p <= 0.0:
                return float("-inf")
            tot += math.log(p)
        return tot
    except (ValueError, OverflowError, ZeroDivisionError):
        return float("nan")


def loglik_total(rows, SD, TS, k_1, ND, TN):
    return loglik_finite(rows, SD, k_1, ND, TN) + loglik_infinite(rows, SD, TS)
