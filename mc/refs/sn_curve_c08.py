"""Reference model for C08: a Woehler (SN) curve with log-normal scatter - plain Python, no pyLife code.

Curve: knee (SD, ND), slope k_1 for loads >= SD, slope k_2 below (inf = endurance), scatter ranges
TN = N_90/N_10, TS = SD_90/SD_10 (log-normal), valid for the failure probability P ("native").

    z(p)            standard normal quantile (statistics.NormalDist, independent of scipy)
    s(T)            = lg(T) / (2 z(0.9))               standard deviation of lg-values for a scatter range T
    SD_P            = SD * 10^((z(P) - z(P_native)) * s(TS))
    N(S; P)         = ND * 10^((z(P) - z(P_native)) * s(TN)) * (S / SD)^-k_1        for S >= SD_P
    ND_P            = N(SD_P; P)
    N(S; P)         = ND_P * (S / SD_P)^-k_2   for S < SD_P   (inf when k_2 = inf)
"""
import math
from statistics import NormalDist

_N01 = NormalDist()
Z90 = _N01.inv_cdf(0.9)


def z(p):
    return _N01.inv_cdf(p)


def scatter_to_std(T):
    return math.log10(T) / (2.0 * Z90)


def std_to_scatter(s):
    return 10.0 ** (2.0 * Z90 * s)


class Curve:
    def __init__(self, k_1, SD, ND, k_2=None, TN=None, TS=None, P=None):
        self.k_1, self.SD, self.ND = float(k_1), float(SD), float(ND)
        self.k_2 = math.inf if k_2 is None else float(k_2)
        if TN is None and TS is None:
            TN, TS = 1.0, 1.0
        elif TS is None:
            TS = float(TN) ** (1.0 / self.k_1)
        elif TN is None:
            TN = float(TS) ** self.k_1
        self.TN, self.TS = float(TN), float(TS)
        self.P = 0.5 if P is None else float(P)

    def knee(self, P):
        d = z(P) - z(self.P)
        sd = self.SD * 10.0 ** (d * scatter_to_std(self.TS))
        nd = self.ND * 10.0 ** (d * scatter_to_std(self.TN)) * (sd / self.SD) ** (-self.k_1)
        return sd, nd

    def cycles(self, S, P=0.5):
        sd, nd = self.knee(P)
        if S >= sd:
            return nd * (S / sd) ** (-self.k_1)
        if math.isinf(self.k_2) or S <= 0.0:
            return math.inf
        return nd * (S / sd) ** (-self.k_2)

    def load(self, N, P=0.5):
        sd, nd = self.knee(P)
        if N <= nd:
            return sd * (N / nd) ** (-1.0 / self.k_1)
        if math.isinf(self.k_2):
            return sd
        return sd * (N / nd) ** (-1.0 / self.k_2)
