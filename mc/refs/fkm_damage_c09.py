"""Reference pieces for C09 (FKM nonlinear, P_RAM side) - plain Python, shares no code with pyLife.

* PRAMCurve / PRAJCurve   the component damage Woehler curves as piecewise power laws
* k_mean_stress / p_ram   damage parameter P_RAM of one hysteresis
* literal_lifetime        explicit damage accumulation over the two HCM passes
* beta / gamma_L_*        safety index and load safety factors
"""
import math
from fractions import Fraction
from statistics import NormalDist

INF = math.inf

# FKM nonlinear table 2.14 (mean stress sensitivity M_sigma = a_M * 1e-3 * R_m + b_M)
MEAN_STRESS_CONSTANTS = {"Steel": (0.35, -0.1), "SteelCast": (0.35, 0.05), "Al_wrought": (1.0, -0.04)}


class PRAMCurve:
    """N = 1e3 (P/P_Z)^(1/d_1) for P >= P_Z, 1e3 (P/P_Z)^(1/d_2) for P_D < P < P_Z, inf for P <= P_D."""

    def __init__(self, P_Z, P_D, d_1, d_2):
        self.P_Z, self.P_D, self.d_1, self.d_2 = float(P_Z), float(P_D), float(d_1), float(d_2)
        self.N_D = 1e3 * (self.P_D / self.P_Z) ** (1.0 / self.d_2)

    def N_power_law(self, P):
        """the two finite-life power laws continued below the endurance value (elementary continuation)"""
        if P <= 0.0:
            return INF
        d = self.d_1 if P >= self.P_Z else self.d_2
        return 1e3 * (P / self.P_Z) ** (1.0 / d)

    def N(self, P):
        return INF if P <= self.P_D else self.N_power_law(P)

    def P(self, N):
        if N < 1e3:
            return self.P_Z * (N / 1e3) ** self.d_1
        if N < self.N_D:
            return self.P_Z * (N / 1e3) ** self.d_2
        return self.P_D


class PRAJCurve:
    """N = (P/P_Z)^(1/d) for P > P_D (P_Z belongs to N = 1), inf at and below P_D."""

    def __init__(self, P_Z, P_D, d):
        self.P_Z, self.P_D, self.d = float(P_Z), float(P_D), float(d)
        self.N_D = (self.P_D / self.P_Z) ** (1.0 / self.d)

    def N(self, P):
        return INF if P <= self.P_D else (P / self.P_Z) ** (1.0 / self.d)

    def P(self, N):
        return self.P_Z * N ** self.d if N < self.N_D else self.P_D


def k_mean_stress(group, R_m, S_m):
    a_M, b_M = MEAN_STRESS_CONSTANTS[group]
    M = a_M * 1e-3 * R_m + b_M
    if S_m >= 0:
        return M * (M + 2.0)
    return M / 3.0 * (M / 3.0 + 2.0)


def p_ram(group, R_m, E, S_a, S_m, eps_a):
    prod = (S_a + k_mean_stress(group, R_m, S_m) * S_m) * eps_a * E
    return math.sqrt(prod) if prod >= 0 else 0.0


# ---- literal damage accumulation ---------------------------------------------------------------------------
def literal_lifetime(rows1, rows2, N_of, zero=0.0, one=1.0, brute_limit=3000):
    """rows = [(P_RAM, closed)], N_of(P) = bearable cycles of one hysteresis (float or Fraction, inf allowed).

    Accumulate the damage of the first pass once, then the second pass again and again, hysteresis by hysteresis,
    until the sum reaches one.  Half (not closed) hystereses count half.

    Returns (n_times, n_cycles, info):
      * the sum reaches one before the first traversal of the second pass is complete ("early failure"):
        n_times = 0 and n_cycles = number of hystereses accumulated while the sum was still below one;
      * otherwise n_times = 1 + x where x is the number of second-pass traversals until the sum is one (whole
        traversals counted literally, linear interpolation inside the last one) and
        n_cycles = n_times * (hystereses per second pass);
      * inf, inf if the second pass does no damage and one is not reached.
    info: dict with 'early', 'margin' (smallest |sum - 1| seen at a decision, for tie bookkeeping), 'reps'.
    """
    def dmg(row):
        P, closed = row
        n = N_of(P)
        if n == INF:
            return zero
        return (one if closed else one / 2) / n

    total = zero
    count = 0
    margin = INF
    for row in list(rows1) + list(rows2):
        total = total + dmg(row)
        margin = min(margin, abs(float(total) - 1.0))
        if total >= one:
            return 0.0, float(count), {"early": True, "margin": margin, "reps": 0}
        count += 1
    D2 = zero
    for row in rows2:
        D2 = D2 + dmg(row)
    if D2 == zero:
        return INF, INF, {"early": False, "margin": margin, "reps": INF}
    reps = 1                                    # the second pass has been traversed once so far
    # skip ahead over traversals that certainly do not reach one (keeps the loop literal but finite in time)
    fit = int((one - total) / D2) - 2
    if fit > brute_limit:
        total = total + fit * D2
        reps += fit
    while total + D2 < one:
        total = total + D2
        reps += 1
    x = reps + (one - total) / D2               # linear interpolation inside the traversal that reaches one
    n_times = 1 + x
    return float(n_times), float(n_times * len(rows2)), {"early": False, "margin": margin, "reps": reps}


def exact_N_dyadic(P_Z, inv_d1, inv_d2):
    """N_of for curves whose 1/d_1, 1/d_2 are negative integers: N is rational in P -> exact Fractions."""
    PZ = Fraction(P_Z)

    def N_of(P):
        if P <= 0:
            return INF
        r = Fraction(P) / PZ
        e = inv_d1 if r >= 1 else inv_d2
        return 1000 * r ** e
    return N_of


# ---- safety ---------------------------------------------------------------------------------------------------
_N01 = NormalDist()


def beta(P_A):
    return -_N01.inv_cdf(P_A)


BETA_TABLE = {1e-7: 5.20, 1e-6: 4.75, 1e-5: 4.27, 7.2e-5: 3.8, 1e-3: 3.09, 2.3e-1: 0.739, 0.5: 0.0}


def alpha(P_A, P_L, s):
    b = BETA_TABLE[P_A]
    return (0.7 * b - 2.0) * s if P_L == 2.5 else 0.7 * b * s


def gamma_L_normal(P_A, P_L, s_L, L_max):
    return (L_max + alpha(P_A, P_L, s_L)) / L_max


def gamma_L_lognormal(P_A, P_L, LSD_s):
    return max(1.0, 10.0 ** alpha(P_A, P_L, LSD_s))


def gamma_L_blanket(P_L):
    return 1.1 if P_L == 2.5 else 1.0
