"""Reference model for C17: eigenvalues of symmetric 3x3 tensors and the textbook definitions of the equivalent
stresses in terms of them.  Plain numpy, no LAPACK eigen-solver in the primary path (cyclic Jacobi rotations), no pyLife.

Component order everywhere: (s11, s22, s33, s12, s13, s23).
"""
import itertools
import math

import numpy as np


def assemble(v):
    """(N,6) Voigt rows -> (N,3,3) symmetric tensors."""
    v = np.asarray(v, dtype=float)
    a = np.zeros((len(v), 3, 3))
    a[:, 0, 0], a[:, 1, 1], a[:, 2, 2] = v[:, 0], v[:, 1], v[:, 2]
    a[:, 0, 1] = a[:, 1, 0] = v[:, 3]
    a[:, 0, 2] = a[:, 2, 0] = v[:, 4]
    a[:, 1, 2] = a[:, 2, 1] = v[:, 5]
    return a


def voigt(a):
    return np.stack([a[:, 0, 0], a[:, 1, 1], a[:, 2, 2], a[:, 0, 1], a[:, 0, 2], a[:, 1, 2]], axis=1)


def rotate(v, rot):
    """Voigt rows of R A R^T (exact when R is a signed permutation matrix: every sum has one non-zero term)."""
    a = assemble(v)
    return voigt(np.einsum("ij,njk,lk->nil", rot, a, rot))


def cube_rotations():
    """The 24 proper rotations of the cube (signed permutation matrices with det +1), identity first."""
    out = []
    for perm in itertools.permutations(range(3)):
        for signs in itertools.product((1.0, -1.0), repeat=3):
            r = np.zeros((3, 3))
            for i, p in enumerate(perm):
                r[i, p] = signs[i]
            if round(float(np.linalg.det(r))) == 1:
                out.append(r)
    assert len(out) == 24 and np.array_equal(out[0], np.eye(3))
    return out


def axis_rotation(axis, c, s):
    """Rotation about a coordinate axis with cos = c, sin = s (rational pairs like 3/5, 4/5)."""
    i, j = [(1, 2), (0, 2), (0, 1)][axis]
    r = np.eye(3)
    r[i, i] = c
    r[j, j] = c
    r[i, j] = -s
    r[j, i] = s
    return r


def jacobi_eigenvalues(v, sweeps=10):
    """Ascending eigenvalues (N,3) by cyclic Jacobi rotations (Rutishauser's formulas), vectorised over rows."""
    a = assemble(v)
    n = len(a)
    for _ in range(sweeps):
        off = np.abs(a[:, 0, 1]) + np.abs(a[:, 0, 2]) + np.abs(a[:, 1, 2])
        if not np.any(off > 0):
            break
        for p, q in ((0, 1), (0, 2), (1, 2)):
            apq = a[:, p, q]
            nz = apq != 0
            if not np.any(nz):
                continue
            safe = np.where(nz, apq, 1.0)
            theta = (a[:, q, q] - a[:, p, p]) / (2.0 * safe)
            t = np.where(theta >= 0, 1.0, -1.0) / (np.abs(theta) + np.sqrt(theta * theta + 1.0))
            c = 1.0 / np.sqrt(t * t + 1.0)
            s = t * c
            c = np.where(nz, c, 1.0)
            s = np.where(nz, s, 0.0)
            j = np.zeros((n, 3, 3))
            j[:, 0, 0] = j[:, 1, 1] = j[:, 2, 2] = 1.0
            j[:, p, p] = c
            j[:, q, q] = c
            j[:, p, q] = s
            j[:, q, p] = -s
            a = np.einsum("nji,njk,nkl->nil", j, a, j)
            a[:, p, q] = np.where(nz, 0.0, a[:, p, q])
            a[:, q, p] = a[:, p, q]
    return np.sort(np.stack([a[:, 0, 0], a[:, 1, 1], a[:, 2, 2]], axis=1), axis=1)


def charpoly_coefficients(v):
    """Invariants I1, I2, I3 of  l^3 - I1 l^2 + I2 l - I3  (exact for integer components)."""
    s11, s22, s33, s12, s13, s23 = [np.asarray(v)[:, i] for i in range(6)]
    i1 = s11 + s22 + s33
    i2 = s11 * s22 + s11 * s33 + s22 * s33 - s12 * s12 - s13 * s13 - s23 * s23
    i3 = s11 * s22 * s33 + 2 * s12 * s13 * s23 - s11 * s23 * s23 - s22 * s13 * s13 - s33 * s12 * s12
    return i1, i2, i3


def charpoly_residual(v, lam):
    """max_k |p(lam_k)| per row."""
    i1, i2, i3 = charpoly_coefficients(v)
    lam = np.asarray(lam)
    p = lam ** 3 - i1[:, None] * lam ** 2 + i2[:, None] * lam - i3[:, None]
    return np.max(np.abs(p), axis=1)


def frobenius(v):
    v = np.asarray(v, dtype=float)
    return np.sqrt(v[:, 0] ** 2 + v[:, 1] ** 2 + v[:, 2] ** 2 + 2 * (v[:, 3] ** 2 + v[:, 4] ** 2 + v[:, 5] ** 2))


def definitions(lam):
    """Textbook definitions from ascending eigenvalues (N,3) -> dict of (N,) arrays."""
    l1, l2, l3 = lam[:, 0], lam[:, 1], lam[:, 2]
    mises = np.sqrt(0.5 * ((l1 - l2) ** 2 + (l2 - l3) ** 2 + (l3 - l1) ** 2))
    tresca = l3 - l1
    indicator = l3 + l1                       # > 0: the largest-magnitude eigenvalue is l3, < 0: l1
    absmax_magnitude = np.maximum(np.abs(l1), np.abs(l3))
    absmax = np.where(indicator >= 0, l3, l1)
    return {"mises": mises, "tresca": tresca, "max_principal": l3, "min_principal": l1,
            "absmax_magnitude": absmax_magnitude, "abs_max_principal": absmax, "indicator": indicator}


SQRT3 = math.sqrt(3.0)
