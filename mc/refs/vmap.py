"""Reference model for C20 (VMAP export -> import round trip).  Plain Python, shares no code with pyLife.

* mesh specs: tiny meshes as raw rows (element_id, node_id) in the order in which they are handed to the
  exporter, plus closed-form coordinates / field values that make every row distinguishable;
* what an import has to return for such a mesh (elements ordered by id, node order inside an element as given);
* the event menu of the history search and the dict-based model of the file content after a history.
"""
import math

INT32_MAX = 2147483647

# node counts of the element types VMAP knows, per dimension (VMAP standard table, written down independently)
SUPPORTED = {2: (3, 4, 6, 8), 3: (4, 6, 8, 10, 15, 20)}

NODE_COLS = {"DISPLACEMENT": ["dx", "dy", "dz"], "T": ["t"]}
ELNODAL_COLS = {"STRESS_CAUCHY": ["S11", "S22", "S33", "S12", "S13", "S23"], "EN": ["v"],
                "E": ["E11", "E22", "E33", "E12", "E13", "E23"]}
ALL_VALUE_COLS = ["dx", "dy", "dz", "t", "S11", "S22", "S33", "S12", "S13", "S23", "v",
                  "E11", "E22", "E33", "E12", "E13", "E23"]


def _mesh(mid, slot, z, elements, order, nset, elset, special=None):
    """elements: [(eid, (node ids in element order))] ; order: 'blocks' = rows element after element in the given
    list order, 'interleaved' = round robin over the elements; z: 'solid' (varies), float (constant plane), None
    (frame has no z column)."""
    per_el = [[(eid, nid) for nid in nodes] for eid, nodes in elements]
    if order == "blocks":
        rows = [r for blk in per_el for r in blk]
    else:
        rows, i = [], 0
        while any(i < len(blk) for blk in per_el):
            rows += [blk[i] for blk in per_el if i < len(blk)]
            i += 1
    return {"id": mid, "slot": slot, "z": z, "elements": elements, "rows": rows, "order": order,
            "nset": list(nset), "elset": list(elset), "special": special or {}}


MESHES = {m["id"]: m for m in [
    # ---- planar (slot P)
    _mesh("tri3", "P", 0.0, [(1, (1, 2, 3)), (2, (2, 4, 3))], "blocks", nset=(2, 3), elset=(2,)),
    _mesh("quad4i", "P", 2.5, [(7, (12, 5, 9, 30)), (3, (9, 30, 41, INT32_MAX))], "interleaved", nset=(30, 12), elset=(7,)),
    _mesh("triquad", "P", 0.0, [(2, (1, 2, 3)), (1, (3, 2, 5, 6))], "blocks", nset=(6, 1), elset=(1,)),
    _mesh("tri3noz", "P", None, [(1, (1, 2, 3)), (2, (3, 2, 4))], "blocks", nset=(4,), elset=(1,)),
    _mesh("quad8", "P", 0.0, [(4, (1, 3, 9, 7, 2, 6, 8, 4))], "blocks", nset=(9, 1, 4), elset=(4,),
          special={"nan": True}),
    _mesh("tri6i", "P", -1.0, [(20, (1, 2, 3, 4, 5, 6)), (10, (3, 2, 7, 5, 8, 9))], "interleaved", nset=(7, 3), elset=(10,)),
    _mesh("pent5", "P", 0.0, [(1, (1, 2, 3, 4, 5))], "blocks", nset=(1,), elset=(1,)),
    # a larger strip with sparse ids and large sets (not in the BFS menus; driven by one fixed scenario history): id look-ups
    # that are only right for dense ids or small sets need this size to go wrong
    _mesh("strip40", "P", 0.0,
          [(13 + 700 * k, (1000 * (k + 1), 1000 * (k + 2), 1000 * (k + 2) + 500, 1000 * (k + 1) + 500)) for k in range(40)],
          "interleaved", nset=tuple(1000 * (k + 1) for k in range(0, 41) if k % 4 != 3)[:30],
          elset=tuple(13 + 700 * k for k in range(40) if k % 3 != 1)),
    # ---- solid (slot S)
    _mesh("tet4", "S", "solid", [(5, (10, 20, 30, 40)), (2, (20, 30, 40, 55))], "blocks", nset=(55, 10), elset=(5,)),
    _mesh("hex8", "S", "solid", [(1, (1, 2, 3, 4, 5, 6, 7, 8))], "blocks", nset=(8, 1), elset=(1,)),
    _mesh("tethex", "S", "solid", [(1, (1, 2, 3, 4)), (2, (3, 4, 5, 6, 7, 8, 9, 10))], "blocks", nset=(4, 10), elset=(2,)),
    _mesh("hextet_i", "S", "solid", [(9, (3, 4, 5, 6, 7, 8, 9, 10)), (4, (1, 2, 3, 4))], "interleaved", nset=(4, 10), elset=(9,)),
    _mesh("tet10", "S", "solid", [(3, (19, 17, 15, 13, 11, 9, 7, 5, 3, 1))], "blocks", nset=(1, 19), elset=(3,)),
    _mesh("wedge6i", "S", "solid", [(2, (1, 2, 3, 4, 5, 6)), (1, (4, 5, 6, 7, 8, 11))], "interleaved", nset=(11, 4), elset=(2,)),
    _mesh("pyr5", "S", "solid", [(1, (1, 2, 3, 4, 5))], "blocks", nset=(1,), elset=(1,)),
]}


def has_z(m):
    return m["z"] is not None


def coord(m, nid):
    x = 0.1 * nid + 0.05
    y = ((nid * 7) % 5) * 0.3 - 0.2
    if m["z"] is None:
        return (x, y)
    if m["z"] == "solid":
        return (x, y, ((nid * 3) % 4) * 0.25)
    return (x, y, float(m["z"]))


def dimension(m):
    """3 iff the frame has a z column that is not constant, else 2 (planar mesh)."""
    if m["z"] is None:
        return 2
    zs = {coord(m, nid)[2] for _, nid in m["rows"]}
    return 3 if len(zs) > 1 else 2


def node_counts(m):
    return [len(nodes) for _, nodes in m["elements"]]


def is_mixed(m):
    return len(set(node_counts(m))) > 1


def is_supported(m):
    return all(n in SUPPORTED[dimension(m)] for n in node_counts(m))


def rows_contiguous(m):
    seen, last = set(), None
    for eid, _ in m["rows"]:
        if eid != last and eid in seen:
            return False
        seen.add(eid)
        last = eid
    return True


def node_value(m, nid, col):
    k = ["dx", "dy", "dz", "t"].index(col)
    if m["special"].get("nan") and col == "t" and nid == 9:
        return math.nan
    if m["special"].get("nan") and col == "dz" and nid == 2:
        return math.inf
    return [nid + 0.5, -0.25 * nid, 1e-3 * nid, 1.5 * nid + 0.1][k]


def elnodal_value(m, eid, pos, col):
    """pos = position of the node inside its element."""
    if m["special"].get("nan") and col == "v" and pos == 2:
        return math.nan
    if col == "v":
        return 10.0 * eid + 0.125 * pos
    if col.startswith("E"):
        k = ELNODAL_COLS["E"].index(col)
        return -(100.0 * eid + pos + 0.01 * k)
    k = ELNODAL_COLS["STRESS_CAUCHY"].index(col)
    return 100.0 * eid + pos + 0.01 * k


def raw_table(m):
    """Rows as handed to the exporter: list of dicts with element_id, node_id, coordinates, all value columns."""
    pos_of = {}
    for eid, nodes in m["elements"]:
        for p, nid in enumerate(nodes):
            pos_of[(eid, nid)] = p
    out = []
    for eid, nid in m["rows"]:
        rec = {"element_id": eid, "node_id": nid}
        c = coord(m, nid)
        rec["x"], rec["y"] = c[0], c[1]
        if len(c) == 3:
            rec["z"] = c[2]
        for col in ALL_VALUE_COLS:
            if col in ("dx", "dy", "dz", "t"):
                rec[col] = node_value(m, nid, col)
            else:
                rec[col] = elnodal_value(m, eid, pos_of[(eid, nid)], col)
        out.append(rec)
    return out


def expected_rows(m):
    """(element_id, node_id) rows an import must return: elements by id, nodes in the order given at export."""
    order = {}
    for eid, nid in m["rows"]:
        order.setdefault(eid, []).append(nid)
    return [(eid, nid) for eid in sorted(order) for nid in order[eid]]


# The driver hands ONE frame object per mesh to all calls of a history and rewrites its value columns in place before
# every call: base values for geometry / set calls, a * base + b for a variable of the given state (the usual "loop
# over load states updating the frame" usage).  Values of different states therefore differ, and an exporter that
# remembers anything derived from an earlier call's frame content writes stale numbers.
STATE_AFFINE = {None: (1.0, 0.0), "s1": (2.0, 0.5), "s2": (-1.0, 4.0)}


def expected_columns(m, variables, state=None):
    """variables: list of (name, location, columns) in join order -> (column names, rows of values)."""
    ncoord = 3 if has_z(m) else 2
    cols = ["x", "y"] + (["z"] if has_z(m) else [])
    member = []                 # per value column: the element ids the variable was exported for (None = all)
    for v in variables:
        cols += list(v[2])
        member += [v[3] if len(v) > 3 else None] * len(v[2])
    a, b = STATE_AFFINE[state]
    raw = {(r["element_id"], r["node_id"]): r for r in raw_table(m)}
    values = [[raw[key][c] if j < ncoord else
               (a * raw[key][c] + b if member[j - ncoord] is None or key[0] in member[j - ncoord] else math.nan)
               for j, c in enumerate(cols)] for key in expected_rows(m)]
    return cols, values


# ---------------------------------------------------------------------------------------------------------------
# events.  id -> spec ; ids are stable strings, used in replay files
def _events():
    ev = {}
    for mid, m in MESHES.items():
        ev["G:" + mid] = {"kind": "geometry", "slot": m["slot"], "mesh": mid}
    for slot in "PS":
        ev["NS:" + slot] = {"kind": "node_set", "slot": slot, "foreign": False}
        ev["ES:" + slot] = {"kind": "element_set", "slot": slot, "foreign": False}
        ev["NSX:" + slot] = {"kind": "node_set", "slot": slot, "foreign": True}
        # a second element set of the same size holding OTHER elements (the stored set's ids moved on by one position in
        # the sorted element list): read together with a variable that exists on the first set's elements only
        ev["ES2:" + slot] = {"kind": "element_set", "slot": slot, "foreign": False, "second": True}
        ev["ESX:" + slot] = {"kind": "element_set", "slot": slot, "foreign": True}

    def var(eid, slot, state, name, loc, cols, explicit, bad=None):
        ev[eid] = {"kind": "variable", "slot": slot, "state": state, "name": name, "location": loc, "columns": cols,
                   "explicit": explicit, "bad": bad}
    for slot in "PS":
        for st in ("s1", "s2"):
            var("V:%s:%s:DISPLACEMENT" % (slot, st), slot, st, "DISPLACEMENT", "NODE", NODE_COLS["DISPLACEMENT"], False)
            var("V:%s:%s:STRESS_CAUCHY" % (slot, st), slot, st, "STRESS_CAUCHY", "ELEMENT_NODAL", ELNODAL_COLS["STRESS_CAUCHY"], False)
            var("V:%s:%s:E" % (slot, st), slot, st, "E", "ELEMENT_NODAL", ELNODAL_COLS["E"], False)
            var("V:%s:%s:EN" % (slot, st), slot, st, "EN", "ELEMENT_NODAL", ["v"], True)
            # ... handed over as a re-ordered copy of the geometry's frame: same rows, element blocks in reversed order
            # of first appearance (a variable frame need not list the elements in the order of the geometry frame)
            ev["V:%s:%s:EN" % (slot, st)]["rows"] = "blocks-reversed"
            # a variable that exists only on the elements of the stored element set: the frame handed over is a boolean-mask
            # slice of the geometry's frame (rows of the other elements dropped, their ids still among the index levels)
            var("V:%s:%s:ENSUB" % (slot, st), slot, st, "ENSUB", "ELEMENT_NODAL", ["v"], True)
            ev["V:%s:%s:ENSUB" % (slot, st)]["subset"] = "elset"
            var("V:%s:%s:T" % (slot, st), slot, st, "T", "NODE", ["t"], True)
            # a KNOWN variable name stored with fewer components than its default column names (in-plane displacements of
            # a planar analysis, explicit column names at export and at import); straight after the export the driver also
            # asks an importer for it with the DEFAULT names (whatever that attempt does - refusing is fine - is not judged:
            # what is judged is every later export and import in the same process)
            var("V:%s:%s:DISP2D" % (slot, st), slot, st, "DISPLACEMENT", "NODE", ["dx", "dy"], True)
            ev["V:%s:%s:DISP2D" % (slot, st)]["probe_default_import"] = True
            # calls that cannot succeed
            var("V:%s:%s:BADCOL" % (slot, st), slot, st, "BADCOL", "NODE", ["nope"], True, bad="column")
            var("V:%s:%s:BADCOL_EN" % (slot, st), slot, st, "BADCOL_EN", "ELEMENT_NODAL", ["v", "nope"], True, bad="column")
            # ... a value column the file format cannot hold (object dtype: a number column with one 'n/a' in it): the call gets
            # past the column selection and fails while the data are written
            var("V:%s:%s:BADVAL" % (slot, st), slot, st, "BADVAL", "NODE", ["t"], True, bad="values")
            var("V:%s:%s:BADVAL_EN" % (slot, st), slot, st, "BADVAL_EN", "ELEMENT_NODAL", ["v"], True, bad="values")
            var("V:%s:%s:NOLOC" % (slot, st), slot, st, "Q", None, ["t"], True, bad="location")
            var("V:%s:%s:NONAME" % (slot, st), slot, st, "UNKNOWN", None, None, False, bad="name")
    return ev


EVENTS = _events()

SLOT_DEFAULT_MESH = {"P": "tri3", "S": "tet4"}       # frame handed over when the slot is still empty (call must fail)
FOREIGN_ID = 99999


class Model:
    """File content after a history, as plain dicts."""

    def __init__(self):
        self.geom = {}        # slot name -> mesh id
        self.sets = {}        # slot -> list of (kind, set name, [ids])
        self.vars = {}        # (state, slot) -> list of (name, location, columns)   in creation order

    def mesh_for(self, slot):
        return MESHES[self.geom.get(slot, SLOT_DEFAULT_MESH[slot])]

    def is_valid(self, ev):
        """Does the property promise that this call succeeds in the current state?"""
        k = ev["kind"]
        if k == "geometry":
            return ev["slot"] not in self.geom and is_supported(MESHES[ev["mesh"]])
        if ev["slot"] not in self.geom:
            return False
        if k in ("node_set", "element_set"):
            return not ev["foreign"]
        if ev["bad"]:
            return False
        return all(v[0] != ev["name"] for v in self.vars.get((ev["state"], ev["slot"]), []))

    def set_ids(self, ev):
        m = self.mesh_for(ev["slot"])
        ids = list(m["nset"] if ev["kind"] == "node_set" else m["elset"])
        if ev.get("second"):
            every = sorted({e for e, _ in m["rows"]})
            ids = sorted({every[(every.index(e) + 1) % len(every)] for e in ids})
        return ids + [FOREIGN_ID] if ev["foreign"] else ids

    @staticmethod
    def set_name(ev):
        return ("NSET" if ev["kind"] == "node_set" else "ELSET") + ("_X" if ev["foreign"] else "") + ("2" if ev.get("second") else "")

    def apply(self, ev):
        k = ev["kind"]
        if k == "geometry":
            self.geom[ev["slot"]] = ev["mesh"]
        elif k in ("node_set", "element_set"):
            self.sets.setdefault(ev["slot"], []).append((k, self.set_name(ev), self.set_ids(ev)))
        else:
            sub = sorted(self.mesh_for(ev["slot"])["elset"]) if ev.get("subset") == "elset" else None
            self.vars.setdefault((ev["state"], ev["slot"]), []).append((ev["name"], ev["location"], list(ev["columns"] or []), sub,
                                                                        bool(ev.get("probe_default_import"))))

    def content_size(self):
        return (len(self.geom), sum(len(v) for v in self.sets.values()), sum(len(v) for v in self.vars.values()))


MENU_QUICK = [
    "G:tri3", "G:quad4i", "G:triquad", "G:tri3noz", "G:tri6i", "G:pent5", "G:tet4", "G:tethex", "G:hextet_i", "G:tet10", "G:pyr5",
    "NS:P", "ES:P", "NSX:P", "NS:S", "ES:S", "ESX:S", "ES2:P", "V:P:s2:DISP2D",
    "V:P:s1:DISPLACEMENT", "V:P:s1:STRESS_CAUCHY", "V:P:s2:EN", "V:S:s1:STRESS_CAUCHY", "V:S:s1:T", "V:P:s1:ENSUB",
    "V:P:s1:BADCOL", "V:S:s2:NOLOC", "V:P:s1:BADVAL_EN",
]
MENU_THOROUGH = MENU_QUICK + [
    "G:quad8", "G:hex8", "G:wedge6i",
    "V:S:s2:DISPLACEMENT", "V:P:s2:T", "V:S:s1:EN", "V:P:s1:E",
    "V:S:s1:BADCOL_EN", "V:P:s2:NONAME", "NSX:S", "ESX:P", "V:S:s1:BADVAL", "ES2:S", "V:S:s2:ENSUB",
]
