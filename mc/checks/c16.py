"""C16 - closed-form material laws are invertible and differentiate consistently.

Lattice enumeration on the real RambergOsgood / HookesLaw* objects and true_stress / true_strain against the plain
formulas in mc/refs/matlaws.py.

Ramberg-Osgood  : parameter lattice E x K x n, solver tolerance setting, stress lattice +-K * factors (and an
                  independent strain lattice); scalar (python float, np.float64) and array containers.
Hooke           : E x nu, all strain/stress states of {-1, 0, 2}^k (k = 1, 3, 6) times a unit, scalar and array.
True stress/strain : {-0.5, 0, 0.01, 1.7} engineering strains x {-300, 0, 1, 850} stresses.

"Physically meaningful range" of the quantifier is taken as |total strain| <= 1 (100 %, the order of the true fracture
strain of ductile metals); lattice points beyond are executed and counted, not judged.
"""
import itertools
import math
import warnings

import numpy as np

from mc.explore import Acc, h64
from mc.refs import matlaws as ref

ID = "C16"
LEVEL = "exploration"
C = 10.0
EPS_MAX = 1.0
RULE = ("Ramberg-Osgood: every (E, K, n, tolerance setting) x every signed stress K*f of the factor lattice and every "
        "signed strain of the strain lattice is one case (scalar containers python float / np.float64, plus one array "
        "case per parameter set); Hooke: every (E, nu) x every state of {-1,0,2}^k, k=1,3,6, in strain and in stress "
        "space is one case (scalar), plus array cases; true stress/strain: every (strain, stress) pair. "
        "non-trivial = RO: point with plastic strain > 1e-6 of the elastic strain (the non-linear term and the Newton "
        "inversion matter); Hooke: state with >= 2 non-zero components and nu != 0 (coupling matters); true: strain != 0")
ASSUMPTIONS = [
    "physically meaningful range = |total strain| <= 1; points beyond are counted, not judged",
    "inverse identities are judged in the solved variable with the Newton step tolerance passed: |x - exact| <= "
    "10 (tol + rtol |x|); strain-space errors are propagated with the analytic compliance",
    "derivative: analytic reference formula (rel 1e-12) everywhere, central difference of the real strain() with "
    "step 1e-6 K (rtol 1e-5) where the stencil is smooth (|s| >= 1e-4 K)",
    "Hooke identities are judged with atol = 1e-11 * max |component| (nu = 0.49 / -0.9 amplify rounding by <= 100)",
    "true strain/stress: 'exact inverse' is judged on the stretch 1 + e within 4 ulp",
    "the ValueError of lower_hysteresis above max_stress is not part of the property text: counted, not judged",
]

RO_TIERS = {
    "quick": {"E": (70e3, 206e3), "K": (350.0, 1184.0, 2650.0), "n": (0.05, 0.128, 0.187, 0.5, 0.95),
              "factors": (0.0, 1e-6, 0.01, 0.3, 0.6, 0.8, 0.9, 1.0, 2.0),
              "strains": (1e-6, 1e-4, 2e-3, 0.02, 0.1, 0.5, 1.0), "tolerances": ((None, None), (1e-9, 1e-9))},
    "thorough": {"E": (70e3, 110e3, 206e3), "K": (350.0, 600.0, 1184.0, 1800.0, 2650.0),
                 "n": (0.05, 0.065, 0.08, 0.1, 0.128, 0.15, 0.176, 0.187, 0.25, 0.35, 0.5, 0.75, 0.95),
                 "factors": (0.0, 1e-6, 1e-4, 0.01, 0.1, 0.2, 0.3, 0.4, 0.5, 0.6, 0.7, 0.75, 0.8, 0.85, 0.9, 0.95, 1.0, 1.2, 2.0),
                 "strains": (1e-7, 1e-6, 1e-5, 1e-4, 5e-4, 1e-3, 2e-3, 5e-3, 0.01, 0.02, 0.05, 0.1, 0.2, 0.5, 1.0),
                 "tolerances": ((None, None), (1e-7, 1e-7), (1e-9, 1e-9), (1e-12, 1e-12))},
}
# nu close to the limits -1 and 0.5 included ("every -1 < nu < 0.5"): the tolerance grows with the conditioning there
HOOKE = {"E": (1.0, 206e3), "nu": (-0.9999, -0.9, -0.3, 0.0, 0.3, 0.49, 0.4999), "values": (-1.0, 0.0, 2.0)}
HOOKE_THOROUGH = {"E": (1.0, 70e3, 206e3), "nu": (-0.99999, -0.9999, -0.99, -0.9, -0.3, 0.0, 0.2, 0.3, 0.4, 0.49, 0.499, 0.4999, 0.49999),
                  "values": (-1.0, 0.0, 2.0)}
TRUE = {"strains": (-0.5, 0.0, 0.01, 1.7), "stresses": (-300.0, 0.0, 1.0, 850.0)}
DEFAULT_RTOL, DEFAULT_TOL = 1e-5, 1e-6


def bounds(tier):
    return {"RambergOsgood": RO_TIERS[tier], "Hooke": HOOKE if tier == "quick" else HOOKE_THOROUGH,
            "Hooke_states": "{-1,0,2}^k x 1e-3 (strain space) / x E*1e-3 (stress space), k = 1, 3, 6", "true": TRUE,
            "call_histories": dict(HIST[tier], operations=["%s.%s" % o for o in _H_OPS], stress_factors_of_K=list(_H_FACT)),
            "EPS_MAX": EPS_MAX, "C": C}


def shards(tier):
    out = [{"kind": "true"}]
    h = HOOKE if tier == "quick" else HOOKE_THOROUGH
    for E, nu in itertools.product(h["E"], h["nu"]):
        out.append({"kind": "hooke", "E": E, "nu": nu})
    t = RO_TIERS[tier]
    for n, K, E in itertools.product(t["n"], t["K"], t["E"]):
        for rtol, tol in t["tolerances"]:
            out.append({"kind": "RO", "E": E, "K": K, "n": n, "rtol": rtol, "tol": tol,
                        "factors": list(t["factors"]), "strains": list(t["strains"])})
    hh = HIST[tier]
    # one shard per two-operation prefix (plus one for the sequences of length one)
    nops = range(len(_H_OPS))
    for mats, depth in ((hh["materials"], hh["depth"]), (hh.get("shallower_materials", ()), hh.get("shallower_depth"))):
        for mat in mats:
            out.append({"kind": "history", "material": list(mat), "depth": 1, "prefix": []})
            out += [{"kind": "history", "material": list(mat), "depth": depth, "prefix": [i, j]} for i in nops for j in nops]
    return out


# ------------------------------------------------------------------------------------------------- Ramberg-Osgood
def _ro(g):
    from pylife.materiallaws.rambgood import RambergOsgood
    return RambergOsgood(g["E"], g["K"], g["n"])


def _tols(g):
    return (DEFAULT_RTOL, DEFAULT_TOL) if g["rtol"] is None else (g["rtol"], g["tol"])


def _a(g, x):
    rtol, tol = _tols(g)
    return C * (tol + rtol * abs(x))


def _ad(x):
    """delta_stress always solves with the default tolerances."""
    return C * (DEFAULT_TOL + DEFAULT_RTOL * abs(x))


def _inv(g, fn, arg):
    """Call a Newton-based inverse with the group's tolerance. -> ('ok', v) | ('raised', exc)
    (delta_stress has no tolerance parameters: always the defaults)"""
    with warnings.catch_warnings():
        warnings.simplefilter("ignore")
        try:
            if g["rtol"] is None or fn.__name__ == "delta_stress":
                return "ok", fn(arg)
            return "ok", fn(arg, rtol=g["rtol"], tol=g["tol"])
        except Exception as e:      # noqa: BLE001 - judged by the caller
            return "raised", e


def _f(v):
    a = np.asarray(v, dtype=float).reshape(-1)
    if a.size != 1:
        raise ValueError("expected one value, got %d" % a.size)
    return float(a[0])


def _mk(container, x):
    return float(x) if container == "float" else np.float64(x)


def _judged(g, s):
    return abs(ref.ro_strain(g["E"], g["K"], g["n"], s)) <= EPS_MAX


def _key(what):
    return "C16/RambergOsgood/" + what


def ro_point(g, probe, acc):
    """One signed stress s of the lattice."""
    ro = _ro(g)
    E, K, n = g["E"], g["K"], g["n"]
    s, cont = float(probe["s"]), probe["container"]
    x = _mk(cont, s)
    out = []
    e_ref = ref.ro_strain(E, K, n, s)
    e = _f(ro.strain(x))
    acc.evaluations += 1
    if not abs(e - e_ref) <= 1e-13 * abs(e_ref):
        out.append((_key("strain/not-the-ramberg-osgood-formula"), {"stress": s, "got": e, "expected": e_ref}))
    if not _f(ro.strain(_mk(cont, -s))) == -e:
        out.append((_key("strain/not-odd"), {"stress": s, "strain(s)": e, "strain(-s)": _f(ro.strain(_mk(cont, -s)))}))
    acc.evaluations += 1
    # derivative
    c_ref = ref.ro_compliance(E, K, n, s)
    c = _f(ro.tangential_compliance(x))
    m = _f(ro.tangential_modulus(x))
    acc.evaluations += 2
    if not abs(c - c_ref) <= 1e-12 * c_ref:
        out.append((_key("tangential_compliance/not-the-derivative-formula"), {"stress": s, "got": c, "expected": c_ref}))
    if abs(s) >= 1e-4 * K:
        h = 1e-6 * K
        fd = (_f(ro.strain(_mk(cont, s + h))) - _f(ro.strain(_mk(cont, s - h)))) / (2 * h)
        acc.evaluations += 2
        if not abs(c - fd) <= 1e-5 * abs(fd):
            out.append((_key("tangential_compliance/not-the-central-difference-of-strain"), {"stress": s, "got": c, "central_difference": fd}))
    if not abs(m * c - 1.0) <= 1e-14:
        out.append((_key("tangential_modulus/not-the-reciprocal-compliance"), {"stress": s, "modulus": m, "compliance": c}))
    # Masing range functions: doubled curve
    for ds in (s, 2 * s):
        de = _f(ro.delta_strain(_mk(cont, ds)))
        acc.evaluations += 1
        de_ref = 2 * ref.ro_strain(E, K, n, ds / 2)
        if not abs(de - de_ref) <= 1e-13 * abs(de_ref):
            out.append((_key("delta_strain/not-the-doubled-curve"), {"delta_stress": ds, "got": de, "expected": de_ref}))
        if abs(de_ref) <= 2 * EPS_MAX:
            st, back = _inv(g, ro.delta_stress, _mk(cont, de))
            acc.evaluations += 1
            if st == "raised":
                out.append((_key("delta_stress/raises-%s" % type(back).__name__), {"delta_strain": de, "expected_delta_stress": ds, "message": str(back)[:160]}))
            elif not abs(_f(back) - ds) <= 2 * _ad(ds / 2):
                out.append((_key("delta_stress/not-the-inverse-of-delta_strain"), {"delta_stress": ds, "delta_strain": de, "got": _f(back), "allowed": 2 * _ad(ds / 2)}))
        else:
            acc.count("RO points beyond |strain| <= 1 (not judged)")
    # lower hysteresis branch meets the curve at the reversal point
    lh = _f(ro.lower_hysteresis(x, x))
    acc.evaluations += 1
    if not abs(lh - e) <= 1e-15 * abs(e):
        out.append((_key("lower_hysteresis/does-not-meet-the-curve-at-the-reversal-point"), {"max_stress": s, "got": lh, "strain(max_stress)": e}))
    # inverse: stress(strain(s)) = s
    if abs(e_ref) <= EPS_MAX:
        st, back = _inv(g, ro.stress, _mk(cont, e))
        acc.evaluations += 1
        if st == "raised":
            out.append((_key("stress/raises-%s" % type(back).__name__), {"strain": e, "expected_stress": s, "message": str(back)[:160]}))
        elif not abs(_f(back) - s) <= _a(g, s):
            out.append((_key("stress/not-the-inverse-of-strain"), {"stress": s, "strain": e, "got": _f(back), "allowed": _a(g, s)}))
    else:
        st, back = _inv(g, ro.stress, _mk(cont, e))
        acc.evaluations += 1
        acc.count("RO points beyond |strain| <= 1 (not judged): stress(strain(s)) %s" % ("raised" if st == "raised" else "returned"))
    return out, e


def ro_strain_point(g, probe, acc):
    """One signed strain e of the independent strain lattice: strain(stress(e)) = e, delta_strain(delta_stress(de)) = de."""
    ro = _ro(g)
    E, K, n = g["E"], g["K"], g["n"]
    e, cont = float(probe["e"]), probe["container"]
    out = []
    s_ref = ref.ro_stress(E, K, n, e)
    st, s = _inv(g, ro.stress, _mk(cont, e))
    acc.evaluations += 1
    s_out = None
    if st == "raised":
        out.append((_key("stress/raises-%s" % type(s).__name__), {"strain": e, "expected_stress": s_ref, "message": str(s)[:160]}))
    else:
        s = s_out = _f(s)
        if not abs(s - s_ref) <= _a(g, s_ref):
            out.append((_key("stress/not-the-root"), {"strain": e, "got": s, "expected": s_ref, "allowed": _a(g, s_ref)}))
        e2 = _f(ro.strain(_mk(cont, s)))
        acc.evaluations += 1
        if not abs(e2 - e) <= ref.ro_compliance(E, K, n, s_ref) * _a(g, s_ref) + 1e-13 * abs(e):
            out.append((_key("strain/not-the-inverse-of-stress"), {"strain": e, "stress": s, "strain(stress)": e2}))
    de = 2 * e
    st, ds = _inv(g, ro.delta_stress, _mk(cont, de))
    acc.evaluations += 1
    if st == "raised":
        out.append((_key("delta_stress/raises-%s" % type(ds).__name__), {"delta_strain": de, "message": str(ds)[:160]}))
    else:
        ds = _f(ds)
        if not abs(ds - 2 * s_ref) <= 2 * _ad(s_ref):
            out.append((_key("delta_stress/not-the-doubled-curve"), {"delta_strain": de, "got": ds, "expected": 2 * s_ref}))
        de2 = _f(ro.delta_strain(_mk(cont, ds)))
        acc.evaluations += 1
        if not abs(de2 - de) <= 2 * (ref.ro_compliance(E, K, n, s_ref) * _ad(s_ref) + 1e-13 * abs(e)):
            out.append((_key("delta_strain/not-the-inverse-of-delta_stress"), {"delta_strain": de, "delta_stress": ds, "got": de2}))
    return out, s_out


def _ro_axis(g):
    K = g["K"]
    pos = [f * K for f in g["factors"] if f > 0 and _judged(g, f * K)]
    return sorted([-x for x in pos] + [0.0] + pos)


def ro_array(g, probe, acc):
    """The judged stress lattice as one ndarray: element-wise agreement with scalar calls, oddness, monotonicity,
    inverse on arrays, lower hysteresis on arrays."""
    ro = _ro(g)
    E, K, n = g["E"], g["K"], g["n"]
    axis = _ro_axis(g)
    arr = np.array(axis, dtype=float)
    out = []
    e = np.asarray(ro.strain(arr), dtype=float)
    acc.evaluations += 1
    if e.shape != arr.shape:
        return [(_key("strain/wrong-shape/array"), {"shape": list(e.shape)})]
    el = e.tolist()
    for s, x in zip(axis, el):
        r = ref.ro_strain(E, K, n, s)
        if not abs(x - r) <= 1e-13 * abs(r):
            out.append((_key("strain/not-the-ramberg-osgood-formula/array"), {"stress": s, "got": x, "expected": r}))
            break
    if any(not a < b for a, b in zip(el, el[1:])):
        out.append((_key("strain/not-strictly-increasing"), {"stresses": axis, "strains": el}))
    if any(el[i] != -el[len(el) - 1 - i] for i in range(len(el))):
        out.append((_key("strain/not-odd/array"), {"strains": el}))
    c = np.asarray(ro.tangential_compliance(arr), dtype=float).tolist()
    m = np.asarray(ro.tangential_modulus(arr), dtype=float).tolist()
    acc.evaluations += 2
    for s, cc, mm in zip(axis, c, m):
        cr = ref.ro_compliance(E, K, n, s)
        if not abs(cc - cr) <= 1e-12 * cr or not abs(cc * mm - 1.0) <= 1e-14:
            out.append((_key("tangential_compliance/not-the-derivative-formula/array"), {"stress": s, "compliance": cc, "modulus": mm, "expected": cr}))
            break
    st, back = _inv(g, ro.stress, e)
    acc.evaluations += 1
    if st == "raised":
        out.append((_key("stress/raises-%s/array" % type(back).__name__), {"strains": el, "message": str(back)[:160]}))
    else:
        back = np.asarray(back, dtype=float).reshape(-1).tolist()
        for s, b in zip(axis, back):
            if not abs(b - s) <= _a(g, s):
                out.append((_key("stress/not-the-inverse-of-strain/array"), {"stress": s, "got": b, "allowed": _a(g, s), "strains": el}))
                break
        # history on ONE RambergOsgood object: a question in the elastic range / at zero (same shape), then the full
        # lattice again - the answer must be the one it gave before (nothing remembered from the previous question)
        kept = _ro(g)
        _inv(g, kept.stress, np.zeros(len(el)))
        _inv(g, kept.stress, 1e-6 * np.array(el, dtype=float))
        st5, after = _inv(g, kept.stress, np.array(el, dtype=float))
        _inv(g, kept.stress, 0.0)
        st6, after_scalar = _inv(g, kept.stress, float(el[-1]))
        acc.evaluations += 5
        if st5 == "raised" or st6 == "raised":
            bad = after if st5 == "raised" else after_scalar
            out.append((_key("stress/raises-%s/after-an-elastic-question-on-the-same-object" % type(bad).__name__), {"message": str(bad)[:160]}))
        elif not np.array_equal(np.asarray(after, dtype=float).reshape(-1), np.array(back, dtype=float)) or \
                not abs(float(np.asarray(after_scalar, dtype=float).reshape(-1)[0]) - axis[-1]) <= _a(g, axis[-1]):
            out.append((_key("stress/kept-object-answers-differently-after-an-elastic-question"),
                        {"strains": el, "fresh_object": back, "kept_object": np.asarray(after, dtype=float).reshape(-1).tolist(),
                         "scalar_after_zero": float(np.asarray(after_scalar, dtype=float).reshape(-1)[0]), "expected_scalar": axis[-1]}))
        # history on ONE RambergOsgood object with a re-used strain BUFFER: the array is refilled in place with other
        # strains (half of them) and the same object is asked again; then the *returned* array is overwritten by the caller
        # and the same question is asked once more.  Each answer must be that of a fresh object.
        buf = np.array(el, dtype=float)
        first = _inv(g, ro.stress, buf)
        buf[:] = 0.5 * np.array(el, dtype=float)
        st2, second = _inv(g, ro.stress, buf)
        st3, fresh = _inv(g, _ro(g).stress, 0.5 * np.array(el, dtype=float))
        acc.evaluations += 3
        if st2 != "raised" and st3 != "raised":
            second = np.array(second, dtype=float)
            fresh = np.asarray(fresh, dtype=float)
            if not np.array_equal(second, fresh):
                out.append((_key("stress/kept-object-answers-differently-for-a-refilled-array"),
                            {"strains": (0.5 * np.array(el)).tolist(), "kept_object": second.tolist(), "fresh_object": fresh.tolist()}))
            else:
                _, got2 = _inv(g, ro.stress, buf)
                if isinstance(got2, np.ndarray):
                    got2 *= 1e-6                       # the caller scales the returned array in place ...
                st4, third = _inv(g, ro.stress, buf)   # ... and asks the same question again
                acc.evaluations += 2
                if st4 != "raised" and not np.array_equal(np.asarray(third, dtype=float), fresh):
                    out.append((_key("stress/kept-object-returns-an-array-the-caller-modified"),
                                {"kept_object": np.asarray(third, dtype=float).tolist(), "fresh_object": fresh.tolist()}))
    # mesh-sized arrays (>= 20000 elements; implementations may switch to other code above some size): same numbers as
    # the short array, element by element; the result of the first call is still held when the next call is made
    if st != "raised":
        reps = -(-20000 // len(el))
        big_s, big_e = np.tile(arr, reps), np.tile(np.array(el, dtype=float), reps)
        fresh = _ro(g)
        e_big = fresh.strain(big_s)
        e_snapshot = np.array(e_big, dtype=float, copy=True)
        fresh.strain(0.5 * big_s)
        st7, s_big = _inv(g, fresh.stress, big_e)
        acc.evaluations += 3
        if not np.array_equal(np.asarray(e_big, dtype=float), e_snapshot) or not np.array_equal(e_snapshot[:len(el)], np.array(el, dtype=float)):
            out.append((_key("strain/mesh-sized-array-differs-from-short-array-or-held-result-changed"), {"elements": len(big_s)}))
        if st7 == "raised":
            out.append((_key("stress/raises-%s/mesh-sized-array" % type(s_big).__name__), {"elements": len(big_e), "message": str(s_big)[:160]}))
        else:
            s_big = np.asarray(s_big, dtype=float).reshape(-1)
            worst = int(np.argmax(np.abs(s_big - big_s)))
            if not abs(s_big[worst] - big_s[worst]) <= _a(g, float(big_s[worst])):
                out.append((_key("stress/not-the-inverse-of-strain/mesh-sized-array"), {"elements": len(big_e), "stress": float(big_s[worst]), "got": float(s_big[worst])}))
    # array LAYOUTS ("array containers"): the same numbers as a 2-D block in C order, as a transposed view and in Fortran
    # order (what DataFrame.values / a (nodes, load steps) table deliver): every element keeps its own answer
    m2 = len(axis) // 2
    if m2 >= 2:
        s2d = np.array(axis[:2 * m2], dtype=float).reshape(2, m2)
        e2d = np.array(el[:2 * m2], dtype=float).reshape(2, m2)
        for lname, mk in (("2d-C-order", lambda a: a.copy()), ("2d-transposed-view", lambda a: a.copy().T),
                          ("2d-Fortran-order", lambda a: np.asfortranarray(a))):
            S, Ee = mk(s2d), mk(e2d)
            want_s = mk(s2d)
            got_e = np.asarray(ro.strain(S), dtype=float)
            st8, got_s = _inv(g, ro.stress, Ee)
            st9, got_ds = _inv(g, ro.delta_stress, 2.0 * Ee)
            acc.evaluations += 3
            if got_e.shape != S.shape or not np.array_equal(got_e, mk(e2d)):
                out.append((_key("strain/array-layout/%s-differs-from-the-flat-array" % lname), {"stresses": S.tolist(), "got": got_e.tolist()}))
            for what, stx, got, scale in (("stress", st8, got_s, 1.0), ("delta_stress", st9, got_ds, 2.0)):
                if stx == "raised":
                    out.append((_key("%s/raises-%s/array-layout/%s" % (what, type(got).__name__, lname)), {"message": str(got)[:160]}))
                    continue
                got = np.asarray(got, dtype=float)
                exp = np.array([[scale * ref.ro_stress(E, K, n, x) for x in row] for row in Ee.tolist()])
                tolm = np.array([[scale * _a(g, x / scale) if what == "stress" else 2 * _ad(x / 2) for x in row] for row in exp.tolist()])
                if got.shape != Ee.shape or not np.all(np.abs(got - exp) <= tolm):
                    out.append((_key("%s/array-layout/%s-not-the-inverse-element-by-element" % (what, lname)),
                                {"strains": (scale * Ee).tolist(), "got": got.tolist(), "expected": exp.tolist()}))
    de = np.asarray(ro.delta_strain(arr), dtype=float)
    acc.evaluations += 1
    for s, x in zip(axis, de.tolist()):
        r = 2 * ref.ro_strain(E, K, n, s / 2)
        if not abs(x - r) <= 1e-13 * abs(r):
            out.append((_key("delta_strain/not-the-doubled-curve/array"), {"delta_stress": s, "got": x, "expected": r}))
            break
    st, back = _inv(g, ro.delta_stress, de)
    acc.evaluations += 1
    if st == "raised":
        out.append((_key("delta_stress/raises-%s/array" % type(back).__name__), {"message": str(back)[:160]}))
    else:
        for s, b in zip(axis, np.asarray(back, dtype=float).reshape(-1).tolist()):
            if not abs(b - s) <= 2 * _ad(s / 2):
                out.append((_key("delta_stress/not-the-inverse-of-delta_strain/array"), {"delta_stress": s, "got": b}))
                break
    smax = axis[-1]
    # another material asked for a reversal stress in this process, then this one for the same reversal stress (one nobody
    # has asked for before): the branch must meet this material's own curve there
    from pylife.materiallaws.rambgood import RambergOsgood as _RO
    s2 = 0.9371 * smax
    _RO(2.0 * E, 1.5 * K, n).lower_hysteresis(np.array([0.0, s2]), s2)
    own = float(np.asarray(ro.lower_hysteresis(np.array([s2]), s2), dtype=float).reshape(-1)[0])
    acc.evaluations += 2
    if not abs(own - ref.ro_strain(E, K, n, s2)) <= 1e-13 * abs(ref.ro_strain(E, K, n, s2)):
        out.append((_key("lower_hysteresis/does-not-meet-the-curve-at-the-reversal-point/after-another-material-was-asked"),
                    {"max_stress": s2, "got": own, "strain(max_stress)": ref.ro_strain(E, K, n, s2)}))
    lh = np.asarray(ro.lower_hysteresis(arr, smax), dtype=float).tolist()
    acc.evaluations += 1
    if not abs(lh[-1] - el[-1]) <= 1e-15 * abs(el[-1]):
        out.append((_key("lower_hysteresis/does-not-meet-the-curve-at-the-reversal-point/array"), {"max_stress": smax, "got": lh[-1], "strain(max_stress)": el[-1]}))
    # the shape of the branch below the reversal point is not part of the property text: counted, not judged
    agree = all(abs(x - (ref.ro_strain(E, K, n, smax) - 2 * ref.ro_strain(E, K, n, (smax - s) / 2))) <= 1e-12 * abs(el[-1]) for s, x in zip(axis, lh))
    acc.count("lower_hysteresis below the reversal point %s the Masing-doubled curve (not judged)" % ("equals" if agree else "DIFFERS from"))
    try:
        ro.lower_hysteresis(np.array([axis[0], math.nextafter(smax, math.inf)]), smax)
        acc.count("lower_hysteresis above max_stress: returned (not part of the property; not judged)")
    except ValueError:
        acc.count("lower_hysteresis above max_stress: ValueError (not part of the property; not judged)")
    acc.evaluations += 1
    return out


def run_ro(g, acc):
    def report(viol, probe):
        for key, detail in viol:
            acc.violation(key, {"group": g, "probe": probe}, detail)

    E, K, n = g["E"], g["K"], g["n"]
    for cont in ("float", "np.float64"):
        for f in g["factors"]:
            for sg in ((1.0, -1.0) if f > 0 else (1.0,)):
                s = sg * f * K
                acc.cases += 1
                e_ref = ref.ro_strain(E, K, n, s)
                if abs(e_ref) <= EPS_MAX and abs(e_ref - s / E) > 1e-6 * abs(s / E):
                    acc.nontrivial += 1
                probe = {"p": "point", "s": s, "container": cont}
                viol, e = ro_point(g, probe, acc)
                report(viol, probe)
                acc.outcomes.add(hash(("ro", round(e, 12))))
        for e0 in g["strains"]:
            for sg in (1.0, -1.0):
                acc.cases += 1
                acc.nontrivial += 1
                probe = {"p": "strain-point", "e": sg * e0, "container": cont}
                viol, s = ro_strain_point(g, probe, acc)
                report(viol, probe)
                acc.outcomes.add(hash(("ro-inv", None if s is None else round(s, 9))))
    acc.cases += 1
    acc.nontrivial += 1
    report(ro_array(g, {"p": "array"}, acc), {"p": "array"})
    if not acc.samples and n == 0.187 and K == 1184.0:
        s = 0.9 * K
        acc.sample({"E": E, "K": K, "n": n, "stress": s, "strain": ref.ro_strain(E, K, n, s), "compliance": ref.ro_compliance(E, K, n, s)})


# ------------------------------------------------------------------------------------------------- Hooke
def _hk(what):
    return "C16/Hooke/" + what


_COND = [1.0]      # conditioning of the current (E, nu): max(1/(1+nu), 1/(1-2nu)) / 100, at least 1 (set per shard)


def _close(got, exp, scale):
    got = [float(np.asarray(x)) for x in got]
    return len(got) == len(exp) and all(abs(a - b) <= 1e-11 * scale * _COND[0] for a, b in zip(got, exp))


def _states(values, k, unit):
    return [tuple(v * unit for v in st) for st in itertools.product(values, repeat=k)]


def hooke_state(g, probe, acc):
    """One state (k components) pushed through the laws of dimension k in strain and in stress space (scalars)."""
    from pylife.materiallaws import hookeslaw as H
    E, nu = g["E"], g["nu"]
    st = [float(x) for x in probe["state"]]
    k = len(st)
    out = []
    e_unit, s_unit = 1e-3, 1e-3 * E
    if k == 1:
        law = H.HookesLaw1d(E)
        e = st[0] * e_unit
        s = float(law.stress(e))
        acc.evaluations += 3
        if not abs(s - E * e) <= 1e-14 * abs(E * e) or not abs(float(law.strain(s)) - e) <= 1e-14 * abs(e) \
                or not abs(float(law.stress(law.strain(st[0] * s_unit))) - st[0] * s_unit) <= 1e-14 * abs(st[0] * s_unit):
            out.append((_hk("1d/stress-strain-not-inverse"), {"strain": e, "stress": s}))
        return out
    if k == 3:
        # ---- plane stress
        ps = H.HookesLaw2dPlaneStress(E, nu)
        e11, e22, g12 = (x * e_unit for x in st)
        sc_e, sc_s = e_unit * 2, s_unit * 2 * 100
        s2 = ps.stress(e11, e22, g12)
        back = ps.strain(*s2)
        acc.evaluations += 2
        e33 = ref.plane_stress_e33(E, nu, e11, e22)
        exp3 = ref.hooke3d_stress(E, nu, (e11, e22, e33, g12, 0.0, 0.0))
        if not _close(s2, (exp3[0], exp3[1], exp3[3]), sc_s) or abs(exp3[2]) > 1e-11 * sc_s * _COND[0]:
            out.append((_hk("plane-stress/stress-not-the-3d-law-at-zero-out-of-plane-stress"), {"strain": [e11, e22, g12], "got": [float(x) for x in s2], "expected": [exp3[0], exp3[1], exp3[3]]}))
        if not _close(back, (e11, e22, e33, g12), sc_e * 100):
            out.append((_hk("plane-stress/strain-of-stress-not-identity"), {"strain": [e11, e22, g12], "got": [float(x) for x in back], "expected": [e11, e22, e33, g12]}))
        s11, s22, s12 = (x * s_unit for x in st)
        e2 = ps.strain(s11, s22, s12)
        l3 = H.HookesLaw3d(E, nu)
        e3 = l3.strain(s11, s22, 0.0, s12, 0.0, 0.0)
        acc.evaluations += 2
        r3 = ref.hooke3d_strain(E, nu, (s11, s22, 0.0, s12, 0.0, 0.0))
        if not _close(e2, r3[:4], sc_e * 100) or not _close(e3, r3, sc_e * 100):
            out.append((_hk("plane-stress/strain-not-the-3d-law-at-zero-out-of-plane-stress"), {"stress": [s11, s22, s12], "plane_stress": [float(x) for x in e2], "3d": [float(x) for x in e3], "expected": list(r3)}))
        sb = ps.stress(e2[0], e2[1], e2[3])
        acc.evaluations += 1
        if not _close(sb, (s11, s22, s12), sc_s):
            out.append((_hk("plane-stress/stress-of-strain-not-identity"), {"stress": [s11, s22, s12], "got": [float(x) for x in sb]}))
        # ---- integer typed input (stresses given as whole MPa numbers: python ints and integer arrays): the same numbers as
        #      for the equal float input, for plane stress, plane strain (inherits) and 3D
        ints = [int(x) * 100 for x in st]
        for tag, conv in (("python-ints", lambda v: [int(x) for x in v]), ("int-arrays", lambda v: [np.array([int(x)]) for x in v])):
            for lawname, law, args_i, args_f in (
                    ("plane-stress", ps, conv(ints), [float(x) for x in ints]),
                    ("plane-strain", H.HookesLaw2dPlaneStrain(E, nu), conv(ints), [float(x) for x in ints]),
                    ("3d", H.HookesLaw3d(E, nu), conv(ints + ints), [float(x) for x in ints + ints])):
                try:
                    gi = [float(np.asarray(x).reshape(-1)[0]) for x in law.strain(*args_i)]
                    gf = [float(np.asarray(x).reshape(-1)[0]) for x in law.strain(*args_f)]
                except Exception as e:          # noqa: BLE001
                    out.append((_hk("%s/integer-input-raises-%s" % (lawname, type(e).__name__)), {"stress": ints, "container": tag, "message": str(e)[:160]}))
                    continue
                acc.evaluations += 2
                if gi != gf:
                    out.append((_hk("%s/integer-typed-input-gives-other-numbers" % lawname), {"stress": ints, "container": tag, "got": gi, "float_input": gf}))
        # ---- plane strain
        pe = H.HookesLaw2dPlaneStrain(E, nu)
        s4 = pe.stress(e11, e22, g12)
        acc.evaluations += 1
        x3 = ref.hooke3d_stress(E, nu, (e11, e22, 0.0, g12, 0.0, 0.0))
        if not _close(s4, (x3[0], x3[1], x3[2], x3[3]), sc_s):
            out.append((_hk("plane-strain/stress-not-the-3d-law-at-zero-out-of-plane-strain"), {"strain": [e11, e22, g12], "got": [float(x) for x in s4], "expected": [x3[0], x3[1], x3[2], x3[3]]}))
        l3s = l3.stress(e11, e22, 0.0, g12, 0.0, 0.0)
        acc.evaluations += 1
        if not _close(l3s, x3, sc_s):
            out.append((_hk("3d/stress-not-the-reference-formula"), {"strain": [e11, e22, 0.0, g12, 0.0, 0.0], "got": [float(x) for x in l3s], "expected": list(x3)}))
        eb = pe.strain(float(s4[0]), float(s4[1]), float(s4[3]))
        acc.evaluations += 1
        if not _close(eb, (e11, e22, g12), sc_e * 100):
            out.append((_hk("plane-strain/strain-of-stress-not-identity"), {"strain": [e11, e22, g12], "got": [float(x) for x in eb]}))
        # stress space: in-plane stresses with s33 = nu (s11 + s22) give zero out-of-plane strain in 3D
        ee = pe.strain(s11, s22, s12)
        s33 = nu * (s11 + s22)
        r = ref.hooke3d_strain(E, nu, (s11, s22, s33, s12, 0.0, 0.0))
        acc.evaluations += 1
        if not _close(ee, (r[0], r[1], r[3]), sc_e * 100) or abs(r[2]) > 1e-11 * sc_e * 100 * _COND[0]:
            out.append((_hk("plane-strain/strain-not-the-3d-law-at-zero-out-of-plane-strain"), {"stress": [s11, s22, s12], "got": [float(x) for x in ee], "expected": [r[0], r[1], r[3]]}))
        sb = pe.stress(*ee)
        acc.evaluations += 1
        if not _close(sb, (s11, s22, s33, s12), sc_s):
            out.append((_hk("plane-strain/stress-of-strain-not-identity"), {"stress": [s11, s22, s12], "got": [float(x) for x in sb], "expected": [s11, s22, s33, s12]}))
        return out
    # ---- 3D
    l3 = H.HookesLaw3d(E, nu)
    sc_e, sc_s = e_unit * 2 * 100, s_unit * 2 * 100
    e = tuple(x * e_unit for x in st)
    s = l3.stress(*e)
    eb = l3.strain(*[float(x) for x in s])
    acc.evaluations += 2
    if not _close(s, ref.hooke3d_stress(E, nu, e), sc_s):
        out.append((_hk("3d/stress-not-the-reference-formula"), {"strain": list(e), "got": [float(x) for x in s], "expected": list(ref.hooke3d_stress(E, nu, e))}))
    if not _close(eb, e, sc_e):
        out.append((_hk("3d/strain-of-stress-not-identity"), {"strain": list(e), "got": [float(x) for x in eb]}))
    sg = tuple(x * s_unit for x in st)
    ee = l3.strain(*sg)
    sb = l3.stress(*[float(x) for x in ee])
    acc.evaluations += 2
    if not _close(ee, ref.hooke3d_strain(E, nu, sg), sc_e):
        out.append((_hk("3d/strain-not-the-reference-formula"), {"stress": list(sg), "got": [float(x) for x in ee], "expected": list(ref.hooke3d_strain(E, nu, sg))}))
    if not _close(sb, sg, sc_s):
        out.append((_hk("3d/stress-of-strain-not-identity"), {"stress": list(sg), "got": [float(x) for x in sb]}))
    return out


def hooke_moduli(g, probe, acc):
    from pylife.materiallaws import hookeslaw as H
    E, nu = g["E"], g["nu"]
    out = []
    for cls in (H.HookesLaw2dPlaneStress, H.HookesLaw2dPlaneStrain, H.HookesLaw3d):
        law = cls(E, nu)
        acc.evaluations += 1
        if not abs(law.G - ref.shear_modulus(E, nu)) <= 1e-14 * ref.shear_modulus(E, nu) \
                or not abs(law.K - ref.bulk_modulus(E, nu)) <= 1e-13 * ref.bulk_modulus(E, nu) or law.E != E or law.nu != nu:
            out.append((_hk("moduli/%s" % cls.__name__), {"G": law.G, "K": law.K, "expected_G": ref.shear_modulus(E, nu), "expected_K": ref.bulk_modulus(E, nu)}))
    return out


def hooke_arrays(g, probe, acc):
    """All states of dimension k as arrays in one call == the scalar calls, element-wise (exactly: same arithmetic)."""
    from pylife.materiallaws import hookeslaw as H
    E, nu = g["E"], g["nu"]
    out = []
    vals = HOOKE["values"]
    st3 = np.array(_states(vals, 3, 1e-3)).T
    st6 = np.array(_states(vals, 6, 1e-3)).T
    for name, law, arrs in (("plane-stress", H.HookesLaw2dPlaneStress(E, nu), st3), ("plane-strain", H.HookesLaw2dPlaneStrain(E, nu), st3),
                            ("3d", H.HookesLaw3d(E, nu), st6)):
        for fn_name, unit in (("stress", 1.0), ("strain", E)):
            fn = getattr(law, fn_name)
            a = [np.asarray(x, dtype=float) for x in fn(*[row * unit for row in arrs])]
            acc.evaluations += 1
            # mesh-sized columns (>= 20000 rows) == the short columns, element by element
            reps = -(-20000 // arrs.shape[1])
            big = [np.asarray(x, dtype=float) for x in fn(*[np.tile(row * unit, reps) for row in arrs])]
            acc.evaluations += 1
            if any(x.shape != (reps * arrs.shape[1],) or not np.array_equal(x[:arrs.shape[1]], y) or not np.array_equal(x[-arrs.shape[1]:], y)
                   for x, y in zip(big, a)):
                out.append((_hk("%s/%s/mesh-sized-array-differs-from-short-array" % (name, fn_name)), {"rows": reps * arrs.shape[1]}))
            # the same states handed over as arrays with two axes (nodes x load steps): (3, 5), (4, 5), (2, 3), (3, 3)
            for shape in ((3, 5), (4, 5), (2, 3), (3, 3)):
                m = shape[0] * shape[1]
                try:
                    a2 = [np.asarray(x, dtype=float) for x in fn(*[(row[:m] * unit).reshape(shape) for row in arrs])]
                except Exception as e:                      # noqa: BLE001
                    out.append((_hk("%s/%s/raises-%s-for-2d-arrays" % (name, fn_name, type(e).__name__)), {"shape": list(shape), "message": str(e)[:160]}))
                    break
                acc.evaluations += 1
                if any(x2.shape != shape or not np.array_equal(x2.reshape(-1), x1[:m]) for x2, x1 in zip(a2, a)):
                    out.append((_hk("%s/%s/2d-array-differs-from-1d-array" % (name, fn_name)), {"shape": list(shape)}))
                    break
            for j in range(arrs.shape[1]):
                sc = [np.asarray(x, dtype=float) for x in fn(*[float(row[j] * unit) for row in arrs])]
                acc.evaluations += 1
                scale = 2e-3 * unit * (E if fn_name == "stress" else 1.0 / E) * 100
                if any(abs(float(x[j]) - float(y)) > 1e-13 * scale for x, y in zip(a, sc)):
                    out.append((_hk("%s/%s/array-differs-from-scalar" % (name, fn_name)), {"state": [float(row[j] * unit) for row in arrs]}))
                    break
    return out


def run_hooke(g, acc):
    def report(viol, probe):
        for key, detail in viol:
            acc.violation(key, {"group": g, "probe": probe}, detail)

    report(hooke_moduli(g, {"p": "moduli"}, acc), {"p": "moduli"})
    acc.cases += 1
    for k in (1, 3, 6):
        for st in itertools.product(HOOKE["values"], repeat=k):
            acc.cases += 1
            if sum(1 for x in st if x != 0) >= 2 and g["nu"] != 0:
                acc.nontrivial += 1
            probe = {"p": "state", "state": list(st)}
            viol = hooke_state(g, probe, acc)
            report(viol, probe)
            acc.outcomes.add(hash(("hooke", g["E"], g["nu"], st)))
    acc.cases += 1
    report(hooke_arrays(g, {"p": "arrays"}, acc), {"p": "arrays"})
    if g["nu"] == 0.3 and g["E"] == 206e3:
        e = (1e-3, 0.0, 2e-3, -1e-3, 0.0, 0.0)
        acc.sample({"E": g["E"], "nu": g["nu"], "strain": e, "reference_3d_stress": ref.hooke3d_stress(g["E"], g["nu"], e)})


# ------------------------------------------------------------------------------------------------- true stress / strain
def true_point(probe, acc):
    from pylife.materiallaws import true_stress_strain as T
    e, s, cont = float(probe["e"]), float(probe["s"]), probe["container"]
    out = []
    if cont == "array":
        ee, ss = np.array([e, e]), np.array([s, s])
    else:
        ee, ss = _mk(cont, e), _mk(cont, s)
    te = float(np.asarray(T.true_strain(ee), dtype=float).reshape(-1)[0])
    ts = float(np.asarray(T.true_stress(ss, ee), dtype=float).reshape(-1)[0])
    acc.evaluations += 2
    if cont == "array":
        # the usual conversion of a tensile record: true stress first, then the true strain from the same strain array
        te2 = float(np.asarray(T.true_strain(ee), dtype=float).reshape(-1)[0])
        acc.evaluations += 1
        if not (te2 == te or (math.isnan(te2) and math.isnan(te))):
            out.append(("C16/true_strain/differs-when-asked-after-true_stress-with-the-same-strain-array",
                        {"tech_strain": e, "true_strain_asked_first": te, "true_strain_asked_after_true_stress": te2}))
    # engineering counterparts: e = exp(true strain) - 1,  s = true stress / (1 + e)
    if not abs(math.exp(te) - (1.0 + e)) <= 4 * math.ulp(1.0 + e):
        out.append(("C16/true_strain/not-the-inverse-of-the-engineering-strain", {"tech_strain": e, "true_strain": te, "exp(true_strain)-1": math.exp(te) - 1}))
    if not abs(ts / (1.0 + e) - s) <= 4 * math.ulp(s):
        out.append(("C16/true_stress/not-the-inverse-of-the-engineering-stress", {"tech_stress": s, "tech_strain": e, "true_stress": ts}))
    return out, (te, ts)


def run_true(acc):
    for cont in ("float", "np.float64", "array"):
        for e, s in itertools.product(TRUE["strains"], TRUE["stresses"]):
            acc.cases += 1
            if e != 0:
                acc.nontrivial += 1
            probe = {"p": "true", "e": e, "s": s, "container": cont}
            viol, o = true_point(probe, acc)
            for key, detail in viol:
                acc.violation(key, {"group": {"kind": "true"}, "probe": probe}, detail)
            acc.outcomes.add(hash(("true", o)))


# ------------------------------------------------------------------------------------------------- call histories
# Every sequence of calls up to a depth over a small alphabet, on KEPT objects with caller-owned argument buffers:
# two Ramberg-Osgood materials, HookesLaw1d, true_stress/true_strain, and three caller actions (refill a buffer in
# place, restore it, scale the array returned last in place).  Oracles, for every call of every sequence:
#   * the answer is the reference formula of the buffer's CURRENT content (same tolerances as the point checks),
#   * the same question (operation, material, buffer content) gets the same answer in every history (rel 1e-14),
#   * the caller's argument buffers are bit-for-bit what they were before the call,
#   * every array returned earlier in the sequence and still held is bit-for-bit what it was when returned.
HIST = {"quick": {"depth": 4, "materials": ((206e3, 1184.0, 0.187),)},
        "thorough": {"depth": 4, "materials": ((206e3, 1184.0, 0.187), (70e3, 350.0, 0.05), (110e3, 2650.0, 0.5), (206e3, 600.0, 0.95))}}
_H_FACT = (-0.9, -0.3, 0.0, 0.6, 0.8)
_H_QUERIES = ("strain", "strain_scalar", "stress", "stress_scalar", "plastic_strain", "tangential_compliance",
              "tangential_modulus", "delta_strain", "delta_stress", "lower_hysteresis")
_H_OPS = [("M0", q) for q in _H_QUERIES] + [("M1", q) for q in _H_QUERIES] + \
         [("H1", "stress"), ("H1", "strain"), ("T", "true_strain"), ("T", "true_stress"),
          ("caller", "refill_S"), ("caller", "refill_E"), ("caller", "scale_last_result")]


def _h_world(mat):
    from pylife.materiallaws.rambgood import RambergOsgood
    from pylife.materiallaws.hookeslaw import HookesLaw1d
    E, K, n = mat
    mats = {"M0": (E, K, n), "M1": (2.0 * E, 1.5 * K, min(0.97, 1.3 * n))}
    S0 = [f * K for f in _H_FACT]
    E0 = [ref.ro_strain(E, K, n, s) for s in S0]
    return {"mats": mats, "obj": {k: RambergOsgood(*v) for k, v in mats.items()}, "H1": HookesLaw1d(E), "E": E,
            "S": np.array(S0, dtype=float), "Eb": np.array(E0, dtype=float), "S0": S0, "E0": E0,
            "S_alt": False, "E_alt": False, "held": [], "last": None}


def _h_expected(w, who, q):
    """-> (expected list or None, tolerance function) from the reference formulas, for the buffers' current content."""
    S, Eb = w["S"].tolist(), w["Eb"].tolist()
    if who in ("M0", "M1"):
        E, K, n = w["mats"][who]
        tight = lambda r: 1e-13 * abs(r) + 1e-300                                  # noqa: E731
        if q == "strain":
            return [ref.ro_strain(E, K, n, s) for s in S], tight
        if q == "strain_scalar":
            return [ref.ro_strain(E, K, n, S[-1])], tight
        if q == "plastic_strain":
            return [ref.ro_strain(E, K, n, s) - s / E for s in S], lambda r: 1e-12 * abs(r) + 1e-18   # noqa: E731
        if q == "tangential_compliance":
            return [ref.ro_compliance(E, K, n, s) for s in S], lambda r: 1e-12 * abs(r)               # noqa: E731
        if q == "tangential_modulus":
            return [1.0 / ref.ro_compliance(E, K, n, s) for s in S], lambda r: 1e-12 * abs(r)         # noqa: E731
        if q == "delta_strain":
            return [2 * ref.ro_strain(E, K, n, s / 2) for s in S], tight
        loose = lambda r: C * (DEFAULT_TOL + DEFAULT_RTOL * abs(r))                # noqa: E731
        if q == "stress":
            return [ref.ro_stress(E, K, n, e) for e in Eb], loose
        if q == "stress_scalar":
            return [ref.ro_stress(E, K, n, Eb[-1])], loose
        if q == "delta_stress":
            return [2 * ref.ro_stress(E, K, n, e / 2) for e in Eb], lambda r: 2 * loose(r / 2)       # noqa: E731
        if q == "lower_hysteresis":
            smax = max(S)
            return [ref.ro_strain(E, K, n, smax) - 2 * ref.ro_strain(E, K, n, (smax - s) / 2) for s in S], \
                lambda r: 1e-12 * abs(ref.ro_strain(E, K, n, smax)) + 1e-300       # noqa: E731
    if who == "H1":
        if q == "stress":
            return [w["E"] * e for e in Eb], lambda r: 4e-16 * abs(r)              # noqa: E731
        return [s / w["E"] for s in S], lambda r: 4e-16 * abs(r)                   # noqa: E731
    if q == "true_strain":
        # judged like the point check: exp(result) is the stretch 1 + e within 4 ulp (np.log(1 + e), not log1p, is what the
        # documented formula says; for small e they differ by more than an ulp of the RESULT but not of the stretch)
        return [math.log(1.0 + e) for e in Eb], lambda r: 4 * math.ulp(1.0) * max(1.0, abs(r))     # noqa: E731
    return [s * (1.0 + e) for s, e in zip(S, Eb)], lambda r: 4e-16 * abs(r)        # noqa: E731


def _h_call(w, who, q):
    S, Eb = w["S"], w["Eb"]
    if who in ("M0", "M1"):
        o = w["obj"][who]
        if q == "strain_scalar":
            return o.strain(float(S[-1]))
        if q == "stress_scalar":
            return o.stress(float(Eb[-1]))
        if q == "lower_hysteresis":
            return o.lower_hysteresis(S, float(S.max()))
        return getattr(o, q)(Eb if q in ("stress", "delta_stress") else S)
    if who == "H1":
        return w["H1"].stress(Eb) if q == "stress" else w["H1"].strain(S)
    from pylife.materiallaws import true_stress_strain as tss
    return tss.true_strain(Eb) if q == "true_strain" else tss.true_stress(S, Eb)


def history_run(mat, seq, acc, seen):
    """Execute one sequence of operation indices on a fresh world. -> list of violations (first offence ends the run)."""
    w = _h_world(mat)
    for depth, oi in enumerate(seq):
        who, q = _H_OPS[oi]
        here = "%s.%s" % (who, q)
        if who == "caller":
            if q == "refill_S":
                w["S_alt"] = not w["S_alt"]
                w["S"][:] = [(0.5 if w["S_alt"] else 1.0) * x for x in w["S0"]]
            elif q == "refill_E":
                w["E_alt"] = not w["E_alt"]
                w["Eb"][:] = [(0.5 if w["E_alt"] else 1.0) * x for x in w["E0"]]
            elif w["last"] is not None and isinstance(w["held"][w["last"]][1], np.ndarray) and w["held"][w["last"]][1].ndim:
                arr = w["held"][w["last"]][1]
                if arr.flags.writeable:
                    arr *= 1e-6
                    w["held"][w["last"]][2] = arr.copy()
            continue
        sb, eb = w["S"].copy(), w["Eb"].copy()
        with warnings.catch_warnings():
            warnings.simplefilter("ignore")
            try:
                res = _h_call(w, who, q)
            except Exception as e:      # noqa: BLE001
                return [(_key("history/%s-raises-%s" % (here, type(e).__name__)), {"at": depth, "message": str(e)[:160]})]
        acc.transitions += 1
        acc.evaluations += 1
        if not (np.array_equal(sb, w["S"]) and np.array_equal(eb, w["Eb"])):
            return [(_key("history/%s-changes-the-callers-argument-array" % here),
                     {"at": depth, "S_before": sb.tolist(), "S_after": w["S"].tolist(), "E_before": eb.tolist(), "E_after": w["Eb"].tolist()})]
        got = np.asarray(res, dtype=float).reshape(-1).tolist()
        exp, tol = _h_expected(w, who, q)
        if len(got) != len(exp):
            return [(_key("history/%s-wrong-shape" % here), {"at": depth, "got": got})]
        judged = [i for i, s in enumerate(exp)] if q != "lower_hysteresis" else [int(np.argmax(w["S"]))]
        for i in judged:
            if not abs(got[i] - exp[i]) <= tol(exp[i]):
                return [(_key("history/%s-not-the-formula-value-for-the-current-arguments" % here),
                         {"at": depth, "element": i, "got": got[i], "expected": exp[i], "S": w["S"].tolist(), "Eb": w["Eb"].tolist()})]
        reads_e = q in ("stress", "stress_scalar", "delta_stress", "true_strain", "true_stress") and not (who == "H1" and q == "strain")
        reads_s = not reads_e or q == "true_stress"
        k = (oi, w["S"].tobytes() if reads_s else b"", w["Eb"].tobytes() if reads_e else b"")
        first = seen.setdefault(k, got)
        if any(not abs(a - b) <= 1e-14 * abs(b) for a, b in zip(got, first)):
            return [(_key("history/%s-answer-depends-on-what-was-asked-before" % here),
                     {"at": depth, "got": got, "first_answer": first, "S": w["S"].tolist(), "Eb": w["Eb"].tolist()})]
        for j, (name, arr, snap) in enumerate(w["held"]):
            if isinstance(arr, np.ndarray) and not np.array_equal(arr, snap):
                return [(_key("history/result-of-%s-held-by-the-caller-changed-by-a-later-%s" % (name, here)),
                         {"at": depth, "held_since": j, "was": np.asarray(snap).tolist(), "now": arr.tolist()})]
        w["held"].append([here, res, np.array(res, dtype=float, copy=True)])
        w["last"] = len(w["held"]) - 1
    return []


def run_history(g, acc):
    mat, depth, prefix = tuple(g["material"]), g["depth"], tuple(g["prefix"])
    seen = {}
    nops = len(_H_OPS)
    # the reference answer of every question is the one given when it is asked FIRST on a fresh world (for each filling of
    # the argument buffers), not the one of whatever history happens to be enumerated first in this shard
    rs, re_ = _H_OPS.index(("caller", "refill_S")), _H_OPS.index(("caller", "refill_E"))
    for pre in ((), (rs,), (re_,), (rs, re_)):
        for oi in range(nops):
            if _H_OPS[oi][0] != "caller":
                history_run(mat, pre + (oi,), Acc(), seen)
    for d in range(max(1, len(prefix)), depth + 1):
        for rest in itertools.product(range(nops), repeat=d - len(prefix)):
            seq = prefix + rest
            acc.cases += 1
            if d >= 2 and len({_H_OPS[i][0] for i in seq}) >= 2:
                acc.nontrivial += 1
            acc.max_depth = max(acc.max_depth, d)
            for key, detail in history_run(mat, seq, acc, seen):
                acc.violation(key, {"group": g, "probe": {"p": "history", "material": list(mat), "seq": list(seq),
                                                          "ops": ["%s.%s" % _H_OPS[i] for i in seq]}}, detail)
    acc.states += len(seen)
    acc.outcomes |= {h64([k[0], v]) for k, v in seen.items()}


# ------------------------------------------------------------------------------------------------- driver
def _set_cond(g):
    if "nu" in g:
        _COND[0] = max(1.0, max(1.0 / (1.0 + g["nu"]), 1.0 / (1.0 - 2.0 * g["nu"])) / 100.0)
    else:
        _COND[0] = 1.0


def run_shard(g):
    acc = Acc()
    _set_cond(g)
    if g["kind"] == "RO":
        run_ro(g, acc)
    elif g["kind"] == "history":
        run_history(g, acc)
    elif g["kind"] == "hooke":
        run_hooke(g, acc)
    else:
        run_true(acc)
    return acc


def replay(case):
    g, probe = case["group"], case["probe"]
    acc = Acc()
    _set_cond(g)
    p = probe["p"]
    if p == "history":
        # the 'same answer in every history' oracle needs the first answer: ask the question alone first
        seen = {}
        rs, re_ = _H_OPS.index(("caller", "refill_S")), _H_OPS.index(("caller", "refill_E"))
        for pre in ((), (rs,), (re_,), (rs, re_)):
            for oi in range(len(_H_OPS)):
                if _H_OPS[oi][0] != "caller":
                    history_run(tuple(probe["material"]), pre + (oi,), Acc(), seen)
        return history_run(tuple(probe["material"]), probe["seq"], acc, seen)
    if p == "point":
        return ro_point(g, probe, acc)[0]
    if p == "strain-point":
        return ro_strain_point(g, probe, acc)[0]
    if p == "array":
        return ro_array(g, probe, acc)
    if p == "state":
        return hooke_state(g, probe, acc)
    if p == "moduli":
        return hooke_moduli(g, probe, acc)
    if p == "arrays":
        return hooke_arrays(g, probe, acc)
    return true_point(probe, acc)[0]
