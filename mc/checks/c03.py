"""C03 - the rainflow result depends only on the reversal sequence (metamorphic relations, all instances).

For every base signal over a small alphabet and every detector, *all* instances of each relation are run on
the real code: refinement by one (thorough: also two) non-reversal samples in every gap, negation, exact
dyadic affine maps (3-/4-point), every interior NaN placement, every Series index type.
"""
import itertools
import warnings

import numpy as np
import pandas as pd

from mc import build_ext
from mc.explore import Acc, signals, chunked

ID = "C03"
LEVEL = "exploration"
RULE = ("all base signals of length 2..n over {-2..2} x all instances of each relation (every gap x {copy, midpoint}, "
        "negation, 9 exact affine maps, every interior NaN position, 6 Series index types) x 3 detectors; one case = one "
        "base signal; non-trivial = base signal with >=1 interior reversal and >=1 closed cycle in the four-point count")
ASSUMPTIONS = [
    "affine maps use dyadic scale factors and offsets so that float arithmetic is exact and '==' is the right comparison",
    "copies are inserted directly *after* the original sample, so the plateau-start index convention is unambiguous",
    "nothing is inserted after the last sample (the last sample is positional by definition)",
    "rainflow_ext is rebuilt from the working tree's extension.pyx before the run",
]

A5 = (-2.0, -1.0, 0.0, 1.0, 2.0)
DETS = ("ThreePointDetector", "FourPointDetector", "FKMDetector")
AFFINE = [(a, b) for a in (0.5, 2.0, 8.0) for b in (0.0, 1.0, -7.5)] + [(2.0 ** -30, 0.0), (2.0 ** 30, 0.0), (2.0 ** -40, 2.0 ** -38)]
TINY = 2.0 ** -30     # "near" insertions: a non-reversal sample this close to its neighbour (exactly representable)


def bounds(tier):
    if tier == "quick":
        return {"alphabet": A5, "n": [2, 6], "insertions": 1, "nans": "1 at every position; runs of 3 and 4 consecutive NaNs at every position"}
    return {"alphabet": A5, "n": [2, 8], "insertions": "1 (n<=8), 2 (n<=6)", "nans": "1 (n<=8), pairs (n<=6); runs of 3 and 4 consecutive NaNs at every position"}


def prepare(tier):
    build_ext.ensure()


def shards(tier):
    nmax = 6 if tier == "quick" else 8
    out = []
    for n in range(2, nmax + 1):
        deep = tier != "quick" and n <= 6
        for block in chunked(signals(A5, n, n), 600 if n <= 6 else 1500):
            out.append((deep, block))
    return out


class Raised(Exception):
    pass


def _run(detname, samples, border=None):
    import pylife.stress.rainflow as RF
    det = getattr(RF, detname)(recorder=RF.FullRecorder())
    try:
        if border is None:
            det.process(samples)
        else:
            det.process(samples[:border]).process(samples[border:])
    except Exception as e:  # noqa: BLE001
        raise Raised(detname, type(e).__name__, str(e)[:200])
    rec = det.recorder
    return (np.asarray(rec.values_from, dtype=float).tolist(), np.asarray(rec.values_to, dtype=float).tolist(),
            [int(i) for i in rec.index_from], [int(i) for i in rec.index_to],
            np.asarray(det.residuals, dtype=float).tolist(), [int(i) for i in det.residual_index])


def _map_idx(idx, inserted_at):
    """index map when new samples are inserted so that they sit at positions `inserted_at` (ascending) of the new array"""
    out = []
    for g in idx:
        for p in inserted_at:
            if g >= p:
                g += 1
        out.append(g)
    return out


def _expect(base, fval=lambda v: v, inserted_at=()):
    vf, vt, i_f, i_t, rv, ri = base
    return ([fval(v) for v in vf], [fval(v) for v in vt], _map_idx(i_f, inserted_at), _map_idx(i_t, inserted_at),
            [fval(v) for v in rv], _map_idx(ri, inserted_at))


def _cmp(detname, got, exp):
    names = ("values_from", "values_to", "index_from", "index_to", "residuals", "residual_index")
    for k, (g, e) in enumerate(zip(got, exp)):
        if detname == "FKMDetector" and k in (2, 3, 5):
            continue          # FKM reports no loop indices; its residual_index is positional bookkeeping only
        if g != e:
            return {"observable": names[k], "got": g, "expected": e}
    return None


def _insertions(sig, k):
    """all ways to insert k non-reversal samples: each (gap i, kind) inserts after sample i"""
    n = len(sig)
    opts = [(i, kind) for i in range(n - 1) for kind in ("copy", "mid")]
    opts += [(i, kind) for i in range(n - 1) if sig[i] != sig[i + 1] for kind in ("near-next", "near-prev")]
    for combo in itertools.combinations_with_replacement(opts, k):
        new, pos = [], []
        for i in range(n):
            new.append(sig[i])
            order = {"copy": 0, "near-prev": 1, "mid": 2, "near-next": 3}       # keeps the segment monotone
            here = sorted([kind for (j, kind) in combo if j == i], key=lambda k: order[k])
            for kind in here:
                if kind == "copy":
                    new.append(sig[i])
                elif kind == "mid":
                    new.append((sig[i] + sig[i + 1]) / 2.0)
                else:
                    d = TINY if sig[i + 1] > sig[i] else -TINY
                    new.append(sig[i + 1] - d if kind == "near-next" else sig[i] + d)
                pos.append(len(new) - 1)
        # two midpoints in one gap would repeat a value (a plateau on a slope) - still no reversal
        yield combo, new, pos


INT_TYPES = (("int8", 60.0, 0.0), ("int16", 15000.0, 0.0), ("int32", 1e9, 0.0), ("uint8", 60.0, 120.0), ("uint16", 15000.0, 30000.0))
SERIES_INDEX = ("range", "reversed", "plus100", "float", "datetime", "string")


def _series(sig, kind):
    n = len(sig)
    if kind == "range":
        idx = pd.RangeIndex(n)
    elif kind == "reversed":
        idx = pd.Index(list(range(n - 1, -1, -1)))
    elif kind == "plus100":
        idx = pd.Index([100 + 3 * i for i in range(n)])
    elif kind == "float":
        idx = pd.Index([0.5 * i - 1.0 for i in range(n)])
    elif kind == "datetime":
        idx = pd.date_range("2020-01-01", periods=n, freq="s")
    else:
        idx = pd.Index(["s%02d" % ((7 * i) % 97) for i in range(n)])
    return pd.Series(np.array(sig, dtype=float), index=idx)


def check_signal(sig, deep):
    try:
        return _check_signal(sig, deep)
    except Raised as r:
        return [("C03/%s/raises-%s" % (r.args[0], r.args[1]), {"error": r.args[2]})], 1, False, ("raised",) + r.args[:2]


def _check_signal(sig, deep):
    """all relation instances for one base signal; returns (violations [(key, detail)], evaluations, nontrivial, outcome)"""
    sig = [float(x) for x in sig]
    n = len(sig)
    viol = []
    evals = 0
    arr = np.array(sig, dtype=float)
    base = {d: _run(d, arr) for d in DETS}
    evals += 3

    def judge(rel, detname, got, exp, extra):
        bad = _cmp(detname, got, exp)
        if bad is not None:
            bad.update(extra)
            viol.append(("C03/%s/%s/%s" % (rel, detname, bad["observable"]), bad))

    # refinement
    for k in ((1, 2) if deep else (1,)):
        for combo, new, pos in _insertions(sig, k):
            a = np.array(new, dtype=float)
            for d in DETS:
                got = _run(d, a)
                evals += 1
                judge("refinement", d, got, _expect(base[d], inserted_at=pos), {"inserted": [list(c) for c in combo], "refined": new})
    # negation
    for d in DETS:
        got = _run(d, -arr)
        evals += 1
        judge("negation", d, got, _expect(base[d], fval=lambda v: -v), {"relation": "negation"})
    # exact affine maps
    for a_, b_ in AFFINE:
        for d in DETS[:2]:
            got = _run(d, a_ * arr + b_)
            evals += 1
            judge("affine", d, got, _expect(base[d], fval=lambda v: a_ * v + b_), {"a": a_, "b": b_})
    # NaN placements: new array positions 1..n-1 (k=1) / pairs (k=2), never first or last
    for k in ((1, 2, 3, 4) if deep else (1, 3, 4)):
        total = n + k
        # k = 1: every position, k = 2 (deep): every pair; k = 3, 4: every *run* of consecutive NaNs (a drop-out of the sensor)
        placements = itertools.combinations(range(1, total - 1), k) if k <= 2 else \
            [tuple(range(p0, p0 + k)) for p0 in range(1, total - k)]
        for pos in placements:
            new = []
            it = iter(sig)
            for j in range(total):
                new.append(float("nan") if j in pos else next(it))
            a = np.array(new, dtype=float)
            for d in DETS:
                with warnings.catch_warnings(record=True) as w:
                    warnings.simplefilter("always")
                    got = _run(d, a)
                evals += 1
                if not any(issubclass(x.category, UserWarning) for x in w):
                    viol.append(("C03/nan/%s/no-warning" % d, {"nan_positions": list(pos), "signal": new}))
                judge("nan", d, got, _expect(base[d], inserted_at=list(pos)), {"nan_positions": list(pos)})
            if k == 1:
                # the same NaN-carrying signal fed in two chunks, every border (NaN first / last in a chunk included)
                for border in range(1, total):
                    for d in DETS:
                        with warnings.catch_warnings(record=True):
                            warnings.simplefilter("always")
                            got = _run(d, a, border)
                        evals += 1
                        judge("nan-chunked", d, got, _expect(base[d], inserted_at=list(pos)), {"nan_positions": list(pos), "border": border})
    # narrow integer sample types (raw ADC counts): the exact map a*x + b into the type's range, steps larger than half the
    # range - first differences computed in the sample type would wrap around
    for dt, a_, b_ in INT_TYPES:
        arr_i = (a_ * arr + b_).astype(dt)
        for d in (DETS if b_ == 0 else DETS[:2]):
            try:
                got = _run(d, arr_i)
            except Raised as r:
                viol.append(("C03/integer-samples/%s/raises-%s" % (d, r.args[1]), {"dtype": dt, "error": r.args[2]}))
                evals += 1
                continue
            evals += 1
            judge("integer-samples", d, got, _expect(base[d], fval=lambda v: a_ * v + b_), {"dtype": dt, "a": a_, "b": b_})
    # Series of every index type
    for kind in SERIES_INDEX:
        s = _series(sig, kind)
        for d in DETS:
            try:
                got = _run(d, s)
            except Raised as r:
                viol.append(("C03/series/%s/raises-%s" % (d, r.args[1]), {"index_type": kind, "error": r.args[2]}))
                evals += 1
                continue
            evals += 1
            judge("series", d, got, base[d], {"index_type": kind})
    b4 = base["FourPointDetector"]
    nontrivial = len(b4[0]) >= 1 and len(b4[5]) >= 3
    return viol, evals, nontrivial, (tuple(b4[0]), tuple(b4[1]), tuple(b4[5]), tuple(base["FKMDetector"][0]))


def run_shard(shard):
    prepare(None)
    deep, block = shard
    acc = Acc()
    for sig in block:
        acc.cases += 1
        viol, evals, nontrivial, outcome = check_signal(sig, deep)
        acc.evaluations += evals
        if nontrivial:
            acc.nontrivial += 1
            if not acc.samples and len(outcome[0]) >= 1:
                acc.sample({"base_signal": list(sig), "relations": "all single insertions, negation, 9 affine maps, all NaN positions, 6 index types",
                            "four_point_cycles_from": outcome[0], "four_point_cycles_to": outcome[1]})
        acc.outcomes.add(hash(outcome))
        for key, detail in viol:
            acc.violation(key, {"signal": list(sig), "deep": deep}, detail)
    return acc


def replay(case):
    viol, _, _, _ = check_signal(case["signal"], case.get("deep", False))
    return viol
