"""C12 - mean stress transformation follows the iso-damage lines of the Haigh diagram.

Three families of shards, all complete enumerations executed on the real pyLife code:

direct (diagram, R_goal)   every cycle of the lattice is transformed to R_goal through every interface:
                           * FKM-Goodman: plain function == closed form (two independently coded references);
                           * a cycle that already sits on the ray R_goal is unchanged;
                           * non-decreasing in amplitude at fixed mean (lattice neighbours) and continuous across every
                             segment border (a 1e-9 step to either side of the border amplitude);
                           * plain function (batch and one cycle per call), collective accessor (range/mean,
                             from/to both orders, cycles column, named / multi index, per-element parameters),
                             HaighDiagram.transform and the histogram accessor agree.
path (diagram, R_2)        for every R_1 of the lattice (incl. R_1 == R_2: idempotence) the cycle is transformed to
                           R_1, the *result* is transformed to R_2, and compared with the direct transformation.
matrix (geometry, M, R)    MeanstressTransformMatrix.fkm_goodman on every count vector of the stated alphabet:
                           total conserved, and every class lands in the bin the plain function says.

Cycles whose exact iso-damage amplitude does not stay positive (decided in exact rational arithmetic by
mc/refs/haigh.py) are outside the property's quantifier: they are executed, counted, not judged.
"""
import itertools
import math
import warnings

import numpy as np

from mc.explore import Acc
from mc.refs import haigh as ref

ID = "C12"
LEVEL = "exploration"
RULE = ("product of (Haigh diagram) x (target R) x (cycle lattice incl. cycles exactly on every segment border) for the direct "
        "clauses; x (intermediate R_1) for path independence; all count vectors of the alphabet on small from/to and "
        "range/mean matrices for cycle conservation. One case = one (diagram, cycle, R[, R_1]) resp. one matrix. "
        "Non-trivial = cycle and target (and R_1) do not all lie in one segment of the diagram, resp. a matrix whose "
        "occupied classes land in >= 2 different result bins")
ASSUMPTIONS = [
    "the reference iso-damage walk in mc/refs/haigh.py (exact fractions) is the Haigh-diagram construction; it is "
    "cross-checked against an independently written FKM-Goodman closed form on every Goodman case",
    "rows of one collective are transformed independently of each other: checked directly for the first "
    "transformation (one cycle per call vs. batch, every lattice cycle), assumed for the batched second "
    "transformation of the path clause (a violation found in a batch is re-run alone before it is reported)",
    "rtol 1e-9 for equalities of float results (<= 5 chained float divisions, observed noise < 1e-15); continuity: "
    "|T(a(1+-1e-9)) - T(a)| <= 1e-6 max(T, a), i.e. any Lipschitz constant <= 1000 passes, any jump fails",
    "target R = 1 (no finite ray) and R = +inf (alias of -inf) are not enumerated",
]

INF = float("inf")
RTOL = 1e-9
EPS = 1e-9
CONT_TOL = 1e-6

# ------------------------------------------------------------------------------------------------ spaces
GOODMAN = [("goodman", 0.0, 0.0), ("goodman", 0.3, 0.1), ("goodman", 0.5, 0.5 / 3.0), ("goodman", 0.3, 0.3), ("goodman", 0.3, 0.0)]   # last: explicit M2 = 0 with M > 0
FIVE_M = [(0.5, 0.3, 0.2, 0.1, 0.0), (0.4, 0.4, 0.2, 0.2, 0.1), (0.3, 0.1, 0.1, 0.05, 0.2), (0.45, 0.15, 0.3, 0.0, 0.05)]

SPACE = {
    "quick": {
        "amplitudes": [1.0, 2.0, 3.5],
        "means": [-6.0, -3.0, -2.0, -1.0, 0.0, 0.5, 1.0, 2.0, 3.0, 7.0],
        "border_cycles": [[1.5, 2.5], [3.0, 7.0], [1.5, 8.5], [7.0, -6.0]],
        "R": [-INF, -3.0, -1.0, -0.5, 0.0, 0.25, 0.4, 0.5, 0.7, 0.9, 2.0, 5.0],
        "five_M": FIVE_M[:2],
        "five_R": [(0.25, 0.5), (0.4, 0.7)],
    },
    "thorough": {
        "amplitudes": [0.5, 1.0, 2.0, 3.5, 7.0],
        "means": [-12.0, -6.0, -3.0, -2.0, -1.0, -0.5, 0.0, 0.5, 1.0, 2.0, 3.0, 5.0, 7.0, 8.5],
        "border_cycles": [[1.5, 2.5], [3.0, 7.0], [1.5, 8.5], [3.0, 5.0]],
        "R": [-INF, -10.0, -3.0, -2.0, -1.0, -0.5, 0.0, 0.25, 1.0 / 3.0, 0.4, 0.5, 0.7, 0.9, 0.99, 1.5, 2.0, 5.0, 100.0],
        "five_M": FIVE_M,
        "five_R": [(0.25, 0.5), (0.25, 0.7), (0.4, 0.5), (0.4, 0.7)],
    },
}

E3 = [-2.0, 0.0, 2.0, 4.0]
MATRIX_GEOMS = {
    "ft2x2": {"form": "fromto", "x": [-2.0, 0.0, 2.0], "y": [-1.0, 1.0, 4.0]},
    "ft2x2irr": {"form": "fromto", "x": [-3.0, -2.0, 2.0], "y": [0.0, 0.5, 4.0]},
    "rm2x2": {"form": "rangemean", "x": [0.0, 2.0, 4.0], "y": [-3.0, 0.0, 3.0]},
    "ft3x3": {"form": "fromto", "x": E3, "y": E3},
    "ft3x3irr": {"form": "fromto", "x": E3, "y": [-3.0, -1.0, 1.0, 2.0]},
    "rm3x3": {"form": "rangemean", "x": [0.0, 2.0, 4.0, 6.0], "y": [-3.0, -1.0, 1.0, 3.0]},
}
MATRIX_R = [-1.0, -0.5, 0.0, 0.5, 0.9]
MATRIX_M = [(0.3, 0.1), (0.5, 0.5 / 3.0), (0.0, 0.0)]


def _diagrams(tier):
    sp = SPACE[tier]
    out = [list(g) for g in GOODMAN]
    for Ms in sp["five_M"]:
        for R12, R23 in sp["five_R"]:
            out.append(["five"] + list(Ms) + [R12, R23])
    return out


def _single_R(tier):
    """Targets for which every lattice cycle is also transformed alone (one call per cycle)."""
    Rs = SPACE[tier]["R"]
    return Rs[::2] if tier == "quick" else Rs


def _structured_counts(n):
    """Count vectors used on the 3x3 matrices in the quick tier: every unit vector, all ones, all sevens, distinct primes,
    and the two checkerboards."""
    primes = [2, 3, 5, 7, 11, 13, 17, 19, 23]
    out = [[1 if i == j else 0 for i in range(n)] for j in range(n)]
    out += [[1] * n, [7] * n, primes[:n], [7 * (i % 2) for i in range(n)], [1 - i % 2 for i in range(n)]]
    return out


def _matrix_plan(tier):
    """[(geometry name, nodes or None, M list, R list, count vectors)]"""
    all4 = [list(c) for c in itertools.product((0, 1, 7), repeat=4)]
    if tier == "quick":
        return [
            ("ft2x2", None, MATRIX_M[:1], [-1.0, 0.0, 0.5], all4),
            ("ft2x2irr", None, MATRIX_M[1:2], [0.5], all4),
            ("rm2x2", None, MATRIX_M[:1], [-1.0], all4),
            ("ft3x3", None, MATRIX_M[:1], MATRIX_R, _structured_counts(9)),
            ("ft3x3", None, MATRIX_M[2:], [-1.0, 0.0], _structured_counts(9)),     # M = 0: ranges exactly on result bin edges
            ("ft3x3irr", None, MATRIX_M[:1], MATRIX_R, _structured_counts(9)),
            ("rm3x3", None, MATRIX_M[:1], MATRIX_R, _structured_counts(9)),
            ("ft2x2", [1, 2], MATRIX_M[:1], [-1.0, 0.5], all4[:27] + [[7, 1, 0, 7]]),
            ("rm3x3", [1, 2, 3], MATRIX_M[:1], [0.0], _structured_counts(9)),
            # ids that do not first appear in sorted order (mesh-file order): per-node results must stay with their node
            ("ft2x2", [7, 2, 5], MATRIX_M[:1], [-1.0, 0.5], all4[:27] + [[7, 1, 0, 7]]),
            ("rm3x3", [30, 10, 20], MATRIX_M[:1], [0.0], _structured_counts(9)),
        ]
    all9_07 = [list(c) for c in itertools.product((0, 7), repeat=9)]
    all9 = [list(c) for c in itertools.product((0, 1, 7), repeat=9)]
    return [
        ("ft2x2", None, MATRIX_M, MATRIX_R, all4),
        ("ft2x2irr", None, MATRIX_M, MATRIX_R, all4),
        ("rm2x2", None, MATRIX_M, MATRIX_R, all4),
        ("ft3x3", None, MATRIX_M[:2], MATRIX_R, all9_07),
        ("ft3x3irr", None, MATRIX_M[:2], MATRIX_R, all9_07),
        ("rm3x3", None, MATRIX_M[:2], MATRIX_R, all9_07),
        ("ft3x3irr", None, MATRIX_M[:1], [0.0], all9),
        ("ft2x2", [1, 2], MATRIX_M[:2], MATRIX_R, all4),
        ("rm3x3", [1, 2, 3], MATRIX_M[:1], MATRIX_R, _structured_counts(9)),
        ("ft2x2", [7, 2, 5], MATRIX_M[:2], MATRIX_R, all4),
        ("rm3x3", [30, 10, 20], MATRIX_M[:1], MATRIX_R, _structured_counts(9)),
    ]


def bounds(tier):
    sp = SPACE[tier]
    return {
        "diagrams": {"fkm_goodman (M, M2)": [g[1:] for g in GOODMAN],
                     "five_segment (M0..M4)": sp["five_M"], "five_segment (R12, R23)": sp["five_R"]},
        "amplitudes": sp["amplitudes"], "means": sp["means"], "extra cycles on segment borders": sp["border_cycles"],
        "R_goal (= R_1 lattice of the path clause)": sp["R"],
        "one-cycle-per-call runs for R_goal in": _single_R(tier),
        "continuity": "every finite segment border x every lattice mean of matching sign, amplitudes a_b(1-1e-9), a_b, a_b(1+1e-9)",
        "matrix": [{"geometry": MATRIX_GEOMS[g], "extra level node": nodes, "M,M2": Ms, "R_goal": Rs, "count vectors": len(cv)}
                   for g, nodes, Ms, Rs, cv in _matrix_plan(tier)],
    }


def shards(tier):
    sp = SPACE[tier]
    ds = _diagrams(tier)
    out = []
    for i, d in enumerate(ds):
        ng = len(GOODMAN)
        other = ds[(i + 1) % ng] if d[0] == "goodman" else ds[ng + (i - ng + 1) % (len(ds) - ng)]
        for R in sp["R"]:
            out.append(("direct", tier, d, R, other))
    for d in ds:
        for R2 in sp["R"]:
            out.append(("path", tier, d, R2))
    for g, nodes, Ms, Rs, cvs in _matrix_plan(tier):
        for M in Ms:
            for R in Rs:
                for k in range(0, len(cvs), 60):
                    out.append(("matrix", g, nodes, list(M), R, cvs[k:k + 60]))
    return out


# ------------------------------------------------------------------------------------------------ pyLife calls
def _ms():
    import pylife.strength.meanstress as MS
    return MS


def _params(d):
    import pandas as pd
    if d[0] == "goodman":
        return pd.Series({"M": d[1], "M2": d[2]})
    return pd.Series(dict(zip(("M0", "M1", "M2", "M3", "M4", "R12", "R23"), d[1:])))


def _params_frame(ds, ids):
    import pandas as pd
    rows = [_params(d) for d in ds]
    return pd.DataFrame(rows, index=pd.Index(ids, name="element_id"))


def _function(d, sa, sm, R):
    import pandas as pd
    MS = _ms()
    if d[0] == "goodman":
        return np.asarray(MS.fkm_goodman(pd.Series(sa, dtype=float), pd.Series(sm, dtype=float), d[1], d[2], R), dtype=float)
    return np.asarray(MS.five_segment_correction(pd.Series(sa, dtype=float), pd.Series(sm, dtype=float), *d[1:], R), dtype=float)


def _accessor(d, frame, R, params=None):
    """df.meanstress_transform.<method>() -> (amplitude, meanstress) arrays in the frame's row order."""
    import pandas as pd
    _ms()                                             # registers the accessors
    params = _params(d) if params is None else params
    acc = frame.meanstress_transform
    res = acc.fkm_goodman(params, R) if d[0] == "goodman" else acc.five_segment(params, R)
    out = res.to_pandas()
    if list(out.index) != list(frame.index):
        # the same rows in another order are the same collective (the property speaks about cycles, not about row order):
        # read the result by key
        if out.index.has_duplicates or sorted(out.index) != sorted(frame.index):
            raise AssertionError("index of the result differs from the index of the collective")
        amp = pd.Series(np.asarray(res.amplitude, dtype=float), index=out.index).reindex(frame.index)
        mean = pd.Series(np.asarray(res.meanstress, dtype=float), index=out.index).reindex(frame.index)
        return amp.to_numpy(), mean.to_numpy()
    return np.asarray(res.amplitude, dtype=float), np.asarray(res.meanstress, dtype=float)


def _haigh(d, params=None):
    MS = _ms()
    params = _params(d) if params is None else params
    return MS.HaighDiagram.fkm_goodman(params) if d[0] == "goodman" else MS.HaighDiagram.five_segment(params)


def _guard(site, fn, viol, mini):
    """Run fn(); an exception of pyLife is a violation of the interface clause at `site`."""
    try:
        with warnings.catch_warnings():
            warnings.simplefilter("ignore")
            with np.errstate(all="ignore"):
                return fn()
    except Exception as e:  # noqa: BLE001 - pyLife raising where a value is expected is the finding
        viol.append(("C12/%s/raises-%s" % (site, type(e).__name__), mini, {"error": str(e)[:300]}))
        return None


# ------------------------------------------------------------------------------------------------ helpers
def _refdiag(d):
    return ref.goodman(d[1], d[2]) if d[0] == "goodman" else ref.five_segment(*d[1:])


def _family(d):
    return "fkm_goodman" if d[0] == "goodman" else ("five_segment" if d[5] == 0.0 else "five_segment-M4!=0")


def _goalclass(R):
    if R == -INF:
        return "R_goal=-inf"
    if R > 1:
        return "R_goal>1"
    return "R_goal<=0" if R <= 0 else "0<R_goal<1"


def _cycleclass(rd, a, m):
    i = ref.segment_index(rd, a, m)
    return "cycle-R>1" if i == 0 else ("cycle-R<=0" if i == 1 else "cycle-0<R<1")


def _isclose(x, y, rtol=RTOL):
    return bool(np.isfinite(x) and np.isfinite(y) and abs(x - y) <= rtol * max(abs(x), abs(y)))


def _exact(rd, a, m, R):
    v = ref.iso_amplitude(rd, a, m, R)
    return None if v is None else float(v)


def _continuity_groups(rd, means):
    """For every finite border ray t_b and every lattice mean of the same sign: amplitudes just below / on / above."""
    out = []
    for tb in ref.borders(rd):
        tb = float(tb)
        for m in means:
            if m == 0.0 or (m > 0) != (tb > 0):
                continue
            ab = m / tb
            out.append([[ab * (1.0 - EPS), m], [ab, m], [ab * (1.0 + EPS), m]])
    return out


def _lattice(tier):
    sp = SPACE[tier]
    cyc = [[a, m] for a in sp["amplitudes"] for m in sp["means"]] + [list(c) for c in sp["border_cycles"]]
    return cyc


def _mono_groups(cyc):
    by_mean = {}
    for a, m in cyc:
        by_mean.setdefault(m, set()).add(a)
    out = []
    for m in sorted(by_mean):
        amps = sorted(by_mean[m])
        for lo, hi in zip(amps, amps[1:]):
            out.append([[lo, m], [hi, m]])
    return out


def _hist_rangemean(cyc):
    import pandas as pd
    a = np.array([c[0] for c in cyc])
    m = np.array([c[1] for c in cyc])
    ri = pd.IntervalIndex.from_arrays(2 * a - 0.5, 2 * a + 0.5)
    mi = pd.IntervalIndex.from_arrays(m - 0.25, m + 0.25)
    return pd.Series(np.arange(1.0, len(cyc) + 1.0), index=pd.MultiIndex.from_arrays([ri, mi], names=["range", "mean"]))


def _hist_fromto(cyc):
    import pandas as pd
    a = np.array([c[0] for c in cyc])
    m = np.array([c[1] for c in cyc])
    sign = np.where(np.arange(len(cyc)) % 2 == 0, 1.0, -1.0)       # alternate standing / hanging classes
    f, t = m - sign * a, m + sign * a
    fi = pd.IntervalIndex.from_arrays(f - 0.5, f + 0.5)
    ti = pd.IntervalIndex.from_arrays(t - 0.25, t + 0.25)
    return pd.Series(np.arange(1.0, len(cyc) + 1.0), index=pd.MultiIndex.from_arrays([fi, ti], names=["from", "to"]))


def _unique(cyc):
    seen, out = set(), []
    for c in cyc:
        if tuple(c) not in seen:
            seen.add(tuple(c))
            out.append(list(c))
    return out


def _bin_expected(ranges, counts, edges):
    """Expected class counts for result bins [e0, e1], (e1, e2], ...  Returns (expected list, ambiguous flag, lost)."""
    exp = [0.0] * (len(edges) - 1)
    ambiguous, lost = False, 0.0
    top = max(abs(e) for e in edges) if len(edges) else 0.0
    for r, c in zip(ranges, counts):
        if any(abs(r - e) <= 1e-9 * max(top, 1.0) for e in edges[1:-1]):
            ambiguous = True
        placed = False
        for k in range(len(edges) - 1):
            lo_ok = r >= edges[k] if k == 0 else r > edges[k]
            if lo_ok and r <= edges[k + 1]:
                exp[k] += c
                placed = True
                break
        if not placed:
            if len(edges) and abs(r - edges[-1]) <= 1e-9 * max(top, 1.0):
                ambiguous = True
            lost += c
    return exp, ambiguous, lost


# ------------------------------------------------------------------------------------------------ direct
def eval_direct(case, acc=None):
    """Everything that concerns one transformation (diagram, R_goal) of explicit cycle groups.

    case: kind, diagram, R, other (diagram of the second element for the per-element layout), cyc, tgt, mono, cont,
          singles (bool), ifaces (bool).  Returns [(key, minimal case, detail)]."""
    import pandas as pd
    _ms()                                                 # registers the accessors
    d, R = list(case["diagram"]), float(case["R"])
    cyc = [[float(a), float(m)] for a, m in case.get("cyc", [])]
    tgt = [[float(a), float(m)] for a, m in case.get("tgt", [])]
    mono = [[[float(a), float(m)] for a, m in g] for g in case.get("mono", [])]
    cont = [[[float(a), float(m)] for a, m in g] for g in case.get("cont", [])]
    rd = _refdiag(d)
    fam, gc = _family(d), _goalclass(R)
    viol = []

    def mini(**kw):
        base = {"kind": "direct", "diagram": d, "R": R, "other": case.get("other"), "cyc": [], "tgt": [], "mono": [], "cont": [],
                "singles": False, "ifaces": False}
        base.update(kw)
        return base

    def count(name, n=1):
        if acc is not None:
            acc.count(name, n)

    everything = cyc + tgt + [c for g in mono for c in g] + [c for g in cont for c in g]
    if not everything:
        return viol
    sa = [c[0] for c in everything]
    sm = [c[1] for c in everything]
    F = _guard("function", lambda: _function(d, sa, sm, R), viol, mini(cyc=everything))
    if acc is not None:
        acc.evaluations += 1
    if F is None:
        return viol
    if len(F) != len(everything):
        viol.append(("C12/function/result-length", mini(cyc=everything), {"got": len(F), "expected": len(everything)}))
        return viol
    pos = 0
    F_cyc = F[pos:pos + len(cyc)]; pos += len(cyc)
    F_tgt = F[pos:pos + len(tgt)]; pos += len(tgt)
    F_mono = []
    for g in mono:
        F_mono.append(F[pos:pos + len(g)]); pos += len(g)
    F_cont = []
    for g in cont:
        F_cont.append(F[pos:pos + len(g)]); pos += len(g)

    exact_cyc = [_exact(rd, a, m, R) for a, m in cyc]

    # -- clause 1: closed form (judged for FKM-Goodman only; the property gives no formula for five segments)
    for (a, m), got, ex in zip(cyc, F_cyc, exact_cyc):
        if acc is not None:
            acc.cases += 1
            i_c, i_g = ref.segment_index(rd, a, m), ref.goal_segment_index(rd, R)
            if i_c != i_g:
                acc.nontrivial += 1
            acc.outcomes.add(hash((fam, round(float(got), 9) if np.isfinite(got) else str(got))))
        if ex is None:
            count("excluded: exact iso-damage amplitude not positive (direct)")
            continue
        if d[0] == "goodman":
            cf = float(ref.goodman_closed_form(a, m, d[1], d[2], R))
            if not _isclose(cf, ex, 1e-12):
                viol.append(("C12/reference-self-disagreement", mini(cyc=[[a, m]]), {"closed_form": cf, "walk": ex}))
            if not _isclose(got, cf):
                viol.append(("C12/closed-form/%s/%s" % (_cycleclass(rd, a, m), gc), mini(cyc=[[a, m]]),
                             {"cycle(S_a,S_m)": [a, m], "R_goal": R, "M,M2": d[1:], "pylife": got, "closed_form": cf}))
        elif not _isclose(got, ex):
            count("five_segment result differs from the reference walk (reported, not judged)")

    # -- clause 4: a cycle already on the ray R_goal is unchanged
    for (a, m), got in zip(tgt, F_tgt):
        if acc is not None:
            acc.cases += 1
        if _exact(rd, a, m, R) is None:
            count("excluded: exact iso-damage amplitude not positive (at-target)")
            continue
        if not _isclose(got, a):
            viol.append(("C12/at-target-changed/%s/%s" % (fam, gc), mini(tgt=[[a, m]]),
                         {"cycle(S_a,S_m)": [a, m], "R_goal": R, "diagram": d, "pylife": got}))

    # -- clause 5: non-decreasing in amplitude (lattice neighbours), continuous across borders
    for g, vals in zip(mono, F_mono):
        if acc is not None:
            acc.cases += 1
        if any(_exact(rd, a, m, R) is None for a, m in g):
            count("excluded: exact iso-damage amplitude not positive (monotonicity pair)")
            continue
        if not (np.all(np.isfinite(vals)) and vals[0] <= vals[1] * (1 + 1e-12)):
            viol.append(("C12/not-monotone-in-amplitude/%s/%s" % (fam, gc), mini(mono=[g]),
                         {"cycles": g, "R_goal": R, "diagram": d, "pylife": list(vals)}))
    for g, vals in zip(cont, F_cont):
        if acc is not None:
            acc.cases += 1
            acc.nontrivial += 1
        if any(_exact(rd, a, m, R) is None for a, m in g):
            count("excluded: exact iso-damage amplitude not positive (continuity triple)")
            continue
        lo, mid, hi = [float(v) for v in vals]
        scale = max(abs(mid), g[1][0])
        if not np.all(np.isfinite(vals)) or abs(lo - mid) > CONT_TOL * scale or abs(hi - mid) > CONT_TOL * scale:
            viol.append(("C12/discontinuous-in-amplitude/%s/%s" % (fam, gc), mini(cont=[g]),
                         {"cycles": g, "R_goal": R, "diagram": d, "pylife": [lo, mid, hi]}))
        elif not (lo <= mid * (1 + 1e-12) and mid <= hi * (1 + 1e-12)):
            viol.append(("C12/not-monotone-in-amplitude/%s/%s" % (fam, gc), mini(cont=[g]),
                         {"cycles": g, "R_goal": R, "diagram": d, "pylife": [lo, mid, hi]}))

    # -- clause 2/6 for "any gap-free Haigh diagram": the same five-segment diagram handed to HaighDiagram.from_dict with its
    #    segments LISTED in every rotation of the Haigh order (one of them is "ascending in R") must give the plain function's
    #    result - the listing order of a diagram carries no meaning
    if case.get("ifaces") and cyc and d[0] != "goodman":
        MS = _ms()
        M0, M1, M2_, M3, M4, R12, R23 = d[1:]
        seg = {(1.0, np.inf): M4, (-np.inf, 0.0): M0, (0.0, R12): M1, (R12, R23): M2_, (R23, 1.0): M3}
        order = list(seg)
        frame = pd.DataFrame({"range": [2.0 * c[0] for c in cyc], "mean": [c[1] for c in cyc]})
        for rot in range(1, 5):
            keys = order[rot:] + order[:rot]
            got = _guard("listing-order", lambda: np.asarray(MS.HaighDiagram.from_dict({k: seg[k] for k in keys}).transform(frame, R)
                                                             .load_collective.amplitude, dtype=float), viol, mini(cyc=cyc, ifaces=True))
            if acc is not None:
                acc.evaluations += 1
                acc.cases += 1
            if got is None:
                continue
            bad = [i for i in range(len(cyc)) if exact_cyc[i] is not None and not _isclose(got[i], F_cyc[i])]
            if bad:
                i = bad[0]
                viol.append(("C12/listing-order/%s/%s" % (_cycleclass(rd, *cyc[i]), gc), mini(cyc=[cyc[i]], ifaces=True),
                             {"cycle(S_a,S_m)": cyc[i], "R_goal": R, "diagram": d, "segments_listed_as": [list(k) for k in keys],
                              "from_dict_listing": float(got[i]), "plain_function": float(F_cyc[i])}))
                break

    # -- clause 6: interfaces agree (all compared with the batch result of the plain function)
    if case.get("singles") and cyc:
        for (a, m), want, ex in zip(cyc, F_cyc, exact_cyc):
            one = _guard("function-single", lambda: _function(d, [a], [m], R), viol, mini(cyc=[[a, m]], singles=True))
            if acc is not None:
                acc.evaluations += 1
            if one is None or ex is None:
                continue
            if len(one) != 1 or not _isclose(one[0], want):
                # a disagreement needs the batch to show: keep the whole batch in the case
                viol.append(("C12/interface/function-batch-vs-single", mini(cyc=everything, singles=True),
                             {"cycle": [a, m], "single": list(one), "in_batch": want}))

    if case.get("ifaces") and cyc:
        ucyc = _unique(cyc + tgt)
        ua = np.array([c[0] for c in ucyc])
        um = np.array([c[1] for c in ucyc])
        lookup = {tuple(c): v for c, v in zip(cyc + tgt, list(F_cyc) + list(F_tgt))}
        want = np.array([lookup[tuple(c)] for c in ucyc])
        judged = np.array([_exact(rd, a, m, R) is not None for a, m in ucyc])
        n = len(ucyc)

        def compare(site, got_amp, got_mean=None, want_amp=want, mask=judged, cycles=ucyc):
            if got_amp is None:
                return
            got_amp = np.asarray(got_amp, dtype=float)
            if got_amp.shape != want_amp.shape:
                viol.append(("C12/interface/%s" % site, mini(cyc=cycles, ifaces=True), {"shape": list(got_amp.shape), "expected": list(want_amp.shape)}))
                return
            for i in range(len(cycles)):
                if not mask[i]:
                    continue
                if not _isclose(got_amp[i], want_amp[i]):
                    viol.append(("C12/interface/%s" % site, mini(cyc=cycles, ifaces=True),
                                 {"cycle": cycles[i], "this_interface": got_amp[i], "plain_function": want_amp[i]}))
                    return
                if got_mean is not None and np.isfinite(got_mean[i]):
                    at = ref.mean_at(got_amp[i], R)
                    if abs(got_mean[i] - at) > 1e-9 * max(abs(at), abs(got_amp[i])):
                        count("result mean not on the ray R_goal (reported, not judged)")

        def ev(k=1):
            if acc is not None:
                acc.evaluations += k

        # range/mean frame, default index
        f1 = pd.DataFrame({"range": 2.0 * ua, "mean": um})
        r = _guard("interface/collective-range-mean", lambda: _accessor(d, f1, R), viol, mini(cyc=ucyc, ifaces=True)); ev()
        if r is not None:
            compare("collective-range-mean", r[0], r[1])
        # from/to frame, alternating from > to and from < to, cycles column, named non-monotonic index
        sign = np.where(np.arange(n) % 2 == 0, 1.0, -1.0)
        f2 = pd.DataFrame({"from": um - sign * ua, "to": um + sign * ua, "cycles": np.arange(n) % 3 + 1.0},
                          index=pd.Index([(n - i) * 10 for i in range(n)], name="cycle"))
        r = _guard("interface/collective-from-to", lambda: _accessor(d, f2, R), viol, mini(cyc=ucyc, ifaces=True)); ev()
        if r is not None:
            compare("collective-from-to", r[0], r[1])
        # MultiIndex (element_id, cycle); element 20 carries another parameter set
        other = case.get("other")
        w2 = None
        if other is not None and n >= 2:
            other = list(other)
            half = n // 2
            ids = [10] * half + [20] * (n - half)
            f3 = pd.DataFrame({"range": 2.0 * ua, "mean": um},
                              index=pd.MultiIndex.from_arrays([ids, list(range(half)) + list(range(n - half))], names=["element_id", "cycle"]))
            w2 = _guard("function", lambda: _function(other, list(ua[half:]), list(um[half:]), R), viol, mini(cyc=ucyc, ifaces=True)); ev()
            if w2 is not None:
                rd2 = _refdiag(other)
                want3 = np.concatenate([want[:half], w2])
                mask3 = np.concatenate([judged[:half], [_exact(rd2, a, m, R) is not None for a, m in ucyc[half:]]])
                pf = _params_frame([d, other], [10, 20])
                r = _guard("interface/collective-per-element-parameters", lambda: _accessor(d, f3, R, pf), viol, mini(cyc=ucyc, ifaces=True)); ev()
                if r is not None:
                    compare("collective-per-element-parameters", r[0], None, want3, mask3)
                # the same rows listed cycle-major (elements interleaved: (10,0), (20,0), (10,1), (20,1), ...)
                perm = [j for pair in itertools.zip_longest(range(half), range(half, n)) for j in pair if j is not None]
                f3i = f3.iloc[perm]
                r = _guard("interface/collective-per-element-parameters/rows-interleaved", lambda: _accessor(d, f3i, R, pf), viol, mini(cyc=ucyc, ifaces=True)); ev()
                if r is not None:
                    compare("collective-per-element-parameters/rows-interleaved", r[0], None, want3[perm], mask3[perm])
        # sensitivities per (element, surface) in a frame whose rows are NOT grouped by element, on a collective that shares no
        # index level with it: every (element, surface, cycle) row of the result is read by key
        if other is not None and n >= 2 and w2 is not None:
            keys = [(2, "rolled"), (1, "rolled"), (2, "polished"), (1, "polished")]

            def halved(x):
                # the same diagram with half the sensitivities (five-segment: R12, R23 kept)
                return [x[0]] + [0.5 * v for v in x[1:3]] if x[0] == "goodman" else [x[0]] + [0.5 * v for v in x[1:6]] + list(x[6:])
            sets = [list(other), list(d), halved(list(d)), halved(list(other))]          # four different parameter sets, in listing order
            pf2 = pd.DataFrame([_params(x) for x in sets], index=pd.MultiIndex.from_tuples(keys, names=["element_id", "surface"]))
            fc = pd.DataFrame({"range": 2.0 * ua, "mean": um}, index=pd.Index(range(n), name="cycle"))
            wants = [_guard("function", lambda x=x: _function(x, list(ua), list(um), R), viol, mini(cyc=ucyc, ifaces=True)) for x in sets]; ev(4)
            masks = [np.array([_exact(_refdiag(x), a, m, R) is not None for a, m in ucyc]) for x in sets]

            def two_level():
                acc_ = fc.meanstress_transform
                res = acc_.fkm_goodman(pf2, R) if d[0] == "goodman" else acc_.five_segment(pf2, R)
                out = res.to_pandas()
                amp = np.asarray(res.amplitude, dtype=float)
                names = list(out.index.names)
                rows = [dict(zip(names, k)) for k in out.index]
                return amp, rows
            r2 = _guard("interface/collective-parameters-two-level-frame", two_level, viol, mini(cyc=ucyc, ifaces=True)); ev()
            if r2 is not None and all(w is not None for w in wants):
                amp, rows = r2
                seen_rows = sorted((rw.get("element_id"), rw.get("surface"), rw.get("cycle")) for rw in rows)
                if seen_rows != sorted((e, s_, c) for (e, s_) in keys for c in range(n)):
                    viol.append(("C12/interface/collective-parameters-two-level-frame/rows", mini(cyc=ucyc, ifaces=True), {"rows": seen_rows[:12]}))
                else:
                    for g, rw in zip(amp, rows):
                        k = keys.index((rw["element_id"], rw["surface"]))
                        c = rw["cycle"]
                        if masks[k][c] and not _isclose(g, wants[k][c]):
                            viol.append(("C12/interface/collective-parameters-two-level-frame", mini(cyc=ucyc, ifaces=True),
                                         {"row": [rw["element_id"], rw["surface"], c], "cycle": ucyc[c], "parameters_of_the_row": sets[k],
                                          "this_interface": float(g), "plain_function_with_the_rows_own_parameters": float(wants[k][c])}))
                            break
        # HaighDiagram.transform on the frame
        r = _guard("interface/HaighDiagram.transform", lambda: _haigh(d).transform(f1, R), viol, mini(cyc=ucyc, ifaces=True)); ev()
        if r is not None:
            compare("HaighDiagram.transform", np.asarray(r["range"], dtype=float) / 2.0, np.asarray(r["mean"], dtype=float))
        # histogram interface: class mids are the cycles
        h1 = _hist_rangemean(ucyc)
        # (results are labelled by the class index; pyLife may return them sorted, so align on the index)
        r = _guard("interface/histogram-range-mean", lambda: _haigh(d).transform(h1, R).reindex(h1.index), viol, mini(cyc=ucyc, ifaces=True)); ev()
        if r is not None:
            compare("histogram-range-mean", np.asarray(r["range"], dtype=float) / 2.0)
        h2 = _hist_fromto(ucyc)
        r = _guard("interface/histogram-from-to", lambda: _haigh(d).transform(h2, R).reindex(h2.index), viol, mini(cyc=ucyc, ifaces=True)); ev()
        if r is not None:
            compare("histogram-from-to", np.asarray(r["range"], dtype=float) / 2.0)
        # series accessor (FKM-Goodman only, -1 <= R < 1): every class must land in the bin holding 2 x plain-function amplitude
        if d[0] == "goodman" and -1.0 <= R < 1.0 and judged.all():
            r = _guard("interface/matrix-accessor", lambda: h1.meanstress_transform.fkm_goodman(_params(d), R).to_pandas(), viol, mini(cyc=ucyc, ifaces=True)); ev()
            if r is not None:
                v = _judge_matrix_result(r, 2.0 * want, h1.to_numpy(), None)
                if v is not None:
                    viol.append(("C12/interface/matrix-accessor/" + v[0], mini(cyc=ucyc, ifaces=True), v[1]))
    return viol


def _judge_matrix_result(res, ranges, counts, node_of_class):
    """res: Series of the real result.  Returns (what, detail) or None.

    total conserved; every class in the bin holding its plain-function range (skipped when a range sits on an edge)."""
    import pandas as pd
    total_in, total_out = float(np.sum(counts)), float(res.sum())
    if not (total_out == total_in):
        return "cycles-not-conserved", {"cycles_in": total_in, "cycles_out": total_out, "result": [float(x) for x in res.to_numpy()]}
    if len(res) == 0:
        return None
    rl = res.index.get_level_values("range")
    if not isinstance(rl, pd.IntervalIndex):
        return "result-index", {"index": repr(res.index)[:200]}
    if node_of_class is None:
        groups = [(None, res, np.arange(len(counts)))]
    else:
        groups = []
        for node in sorted(set(node_of_class)):
            groups.append((node, res.xs(node, level="node"), np.where(np.asarray(node_of_class) == node)[0]))
        # every node's matrix is a rainflow matrix of its own: its cycles must stay with it
        for node, part, members in groups:
            tin, tout = float(sum(counts[i] for i in members)), float(part.sum())
            if tin != tout:
                return "cycles-not-conserved", {"node": node, "cycles_in_of_node": tin, "cycles_out_of_node": tout,
                                                "grand_total_conserved": True}
    for node, part, members in groups:
        iv = part.index.get_level_values("range")
        edges = [float(iv.left[0])] + [float(x) for x in iv.right]
        exp, ambiguous, lost = _bin_expected([ranges[i] for i in members], [counts[i] for i in members], edges)
        if ambiguous:
            return None
        got = [float(x) for x in part.to_numpy()]
        if got != exp:
            return "class-in-wrong-bin", {"node": node, "edges": edges, "got": got, "expected_from_plain_function": exp,
                                          "transformed_ranges": [float(ranges[i]) for i in members]}
    return None


# ------------------------------------------------------------------------------------------------ path
def eval_path(case, acc=None):
    """case: kind, diagram, R1s, R2, cyc.  T(R2)(T(R1)(c)) == T(R2)(c) for every R1, c (R1 == R2: idempotence)."""
    import pandas as pd
    _ms()                                                 # registers the accessors
    d, R2 = list(case["diagram"]), float(case["R2"])
    R1s = [float(r) for r in case["R1s"]]
    cyc = [[float(a), float(m)] for a, m in case["cyc"]]
    rd = _refdiag(d)
    fam, gc = _family(d), _goalclass(R2)
    viol = []
    a0 = np.array([c[0] for c in cyc])
    m0 = np.array([c[1] for c in cyc])
    frame = pd.DataFrame({"range": 2.0 * a0, "mean": m0})

    def mini(**kw):
        base = {"kind": "path", "diagram": d, "R1s": R1s, "R2": R2, "cyc": cyc}
        base.update(kw)
        return base

    def count(name, n=1):
        if acc is not None:
            acc.count(name, n)

    direct = _guard("path/direct", lambda: _accessor(d, frame, R2), viol, mini())
    if acc is not None:
        acc.evaluations += 1
    if direct is None:
        return viol
    # ONE kept HaighDiagram object asked for every R_1 in turn and then for R_2: the last answer must be the direct one
    def kept_history():
        hd = _haigh(d)
        for R1 in R1s:
            if R1 != R2:
                hd.transform(frame, R1)
        hd.transform(frame, R2)                     # (asked twice for the final target as well)
        r = hd.transform(frame, R2)
        return np.asarray(r["range"], dtype=float) / 2.0
    kept = _guard("interface/HaighDiagram.transform/kept-diagram", kept_history, viol, mini())
    if acc is not None:
        acc.evaluations += len(R1s) + 2
    if kept is not None:
        # (judged where the exact iso-damage amplitude is positive, as everywhere else; amplitude = |range| / 2 as the accessor reports it)
        bad = [i for i in range(len(cyc)) if np.isfinite(direct[0][i]) and _exact(rd, cyc[i][0], cyc[i][1], R2) is not None
               and not _isclose(abs(kept[i]), direct[0][i])]
        if bad:
            i = bad[0]
            viol.append(("C12/interface/HaighDiagram.transform/kept-diagram-asked-for-other-targets-before", mini(cyc=[cyc[i]]),
                         {"cycle(S_a,S_m)": cyc[i], "diagram": d, "asked_before": R1s, "R_2": R2, "kept_diagram": float(kept[i]),
                          "fresh_diagram": float(direct[0][i]), "cycles_differing": len(bad)}))
    first = {}
    for R1 in R1s:
        first[R1] = direct if R1 == R2 else _guard("path/first-step", lambda: _accessor(d, frame, R1), viol, mini(R1s=[R1]))
        if acc is not None and R1 != R2:
            acc.evaluations += 1
    # second step, all R1 in one collective: (a) the real output of the first step, (b) amplitude put exactly on the ray R1
    rows_a, rows_m_out, rows_m_ray, owner = [], [], [], []
    for R1 in R1s:
        if first[R1] is None:
            continue
        amp, mean = first[R1]
        for i in range(len(cyc)):
            ok = np.isfinite(amp[i]) and amp[i] > 0 and np.isfinite(mean[i])
            ex1 = _exact(rd, cyc[i][0], cyc[i][1], R1)
            ex2 = _exact(rd, cyc[i][0], cyc[i][1], R2)
            if acc is not None:
                acc.cases += 1
                segs = {ref.segment_index(rd, *cyc[i]), ref.goal_segment_index(rd, R1), ref.goal_segment_index(rd, R2)}
                if len(segs) > 1:
                    acc.nontrivial += 1
            if ex1 is None or ex2 is None:
                count("excluded: exact iso-damage amplitude not positive (path)")
                continue
            if not ok:
                count("path clause not evaluable: first step gave a non-positive / non-finite amplitude (reported, not judged)")
                continue
            rows_a.append(float(amp[i])); rows_m_out.append(float(mean[i])); rows_m_ray.append(ref.mean_at(float(amp[i]), R1))
            owner.append((R1, i))
    if not rows_a:
        return viol
    ra = np.array(rows_a)
    second = {}
    for flavour, means in (("result-of-first-step", np.array(rows_m_out)), ("amplitude-on-ray-R1", np.array(rows_m_ray))):
        f = pd.DataFrame({"range": 2.0 * ra, "mean": means})
        second[flavour] = _guard("path/second-step", lambda: _accessor(d, f, R2), viol, mini())
        if acc is not None:
            acc.evaluations += 1
    reported = set()
    for flavour in ("amplitude-on-ray-R1", "result-of-first-step"):
        if second[flavour] is None:
            continue
        via = second[flavour][0]
        for k, (R1, i) in enumerate(owner):
            want = direct[0][i]
            if acc is not None and flavour == "amplitude-on-ray-R1":
                acc.outcomes.add(hash((fam, round(float(via[k]), 9) if np.isfinite(via[k]) else str(via[k]))))
            if _isclose(via[k], want) or (R1, i) in reported:
                continue
            reported.add((R1, i))
            what = "idempotence" if R1 == R2 else "path-dependence"
            # classifier (not a judgement): which of the three transformations left the exact iso-damage line?
            ex1, ex2 = _exact(rd, cyc[i][0], cyc[i][1], R1), _exact(rd, cyc[i][0], cyc[i][1], R2)
            if not _isclose(want, ex2, 1e-7):
                leg = _goalclass(R2)
            elif not _isclose(rows_a[k], ex1, 1e-7):
                leg = _goalclass(R1)
            else:
                leg = _goalclass(R2)                  # the second step (ray R_1 -> R_2) deviates
            viol.append(("C12/%s/%s/transformation-to-%s-leaves-the-iso-damage-line" % (what, fam, leg), mini(R1s=[R1], cyc=[cyc[i]]),
                         {"cycle(S_a,S_m)": cyc[i], "diagram": d, "R_1": R1, "R_2": R2, "second_step_input": flavour,
                          "amplitude_at_R1": rows_a[k], "via_R1": float(via[k]), "direct": float(want),
                          "exact_iso_damage_amplitude_at_R1": ex1, "exact_iso_damage_amplitude_at_R2": ex2}))
    return viol


# ------------------------------------------------------------------------------------------------ matrix
def _matrix_series(geom, nodes, counts):
    import pandas as pd
    g = MATRIX_GEOMS[geom] if isinstance(geom, str) else geom
    names = ["from", "to"] if g["form"] == "fromto" else ["range", "mean"]
    xi, yi = pd.IntervalIndex.from_breaks(g["x"]), pd.IntervalIndex.from_breaks(g["y"])
    idx = pd.MultiIndex.from_product([xi, yi], names=names)
    counts = np.asarray(counts, dtype=float)
    xm = np.repeat(np.asarray(xi.mid, dtype=float), len(yi))
    ym = np.tile(np.asarray(yi.mid, dtype=float), len(xi))
    if g["form"] == "fromto":
        amp, mean = np.abs(xm - ym) / 2.0, (xm + ym) / 2.0
    else:
        amp, mean = xm / 2.0, ym
    if nodes is None:
        return pd.Series(counts, index=idx), amp, mean, counts, None
    parts, allc, node_of = {}, [], []
    for k, node in enumerate(nodes):
        c = np.roll(counts, k) * (k + 1)          # a different vector on every node
        parts[node] = pd.Series(c, index=idx)
        allc += list(c)
        node_of += [node] * len(c)
    s = pd.concat(parts, names=["node"])
    return s, np.tile(amp, len(nodes)), np.tile(mean, len(nodes)), np.array(allc), node_of


_WANT_CACHE = {}     # plain-function result per (geometry, M, R): the class mids do not depend on the counts


def eval_matrix(case, acc=None):
    """case: kind, geom, nodes, M (M, M2), R, counts.  One call of series.meanstress_transform.fkm_goodman."""
    import pandas as pd
    _ms()                                                 # registers the accessors
    geom, nodes, M, R, counts = case["geom"], case.get("nodes"), [float(x) for x in case["M"]], float(case["R"]), case["counts"]
    d = ["goodman"] + M
    viol = []
    s, amp, mean, allc, node_of = _matrix_series(geom, nodes, counts)
    occupied = allc > 0
    if acc is not None:
        acc.cases += 1
    if not occupied.any():
        if acc is not None:
            acc.count("matrix: empty (all counts 0), executed, trivially conserved")
    judged = not np.any(occupied & (amp <= 0))
    res = _guard("matrix", lambda: s.meanstress_transform.fkm_goodman(pd.Series({"M": M[0], "M2": M[1]}), R).to_pandas(), viol, case)
    if acc is not None:
        acc.evaluations += 1
    if res is None:
        return viol if judged else []
    if not judged:
        if acc is not None:
            acc.count("matrix: an occupied class has amplitude 0 at its mid (outside the quantifier): "
                      + ("conserved" if float(res.sum()) == float(allc.sum()) else "NOT conserved") + " (reported, not judged)")
        return []
    positive = amp > 0
    want = np.zeros(len(amp))
    ck = (str(geom), str(nodes), tuple(M), R)
    if ck in _WANT_CACHE:
        w = _WANT_CACHE[ck]
    else:
        w = _guard("function", lambda: _function(d, list(amp[positive]), list(mean[positive]), R), viol, case)
        _WANT_CACHE[ck] = w
        if acc is not None:
            acc.evaluations += 1
    if w is None:
        return viol
    want[positive] = w
    # classes of amplitude 0 carry no cycles here (judged case); give them their own range so they do not disturb
    v = _judge_matrix_result(res, 2.0 * want, allc, node_of)
    if acc is not None:
        acc.outcomes.add(hash(tuple(round(float(x), 9) for x in res.to_numpy())))
        bins_hit = {int(np.searchsorted(np.linspace(0, max(2 * want.max(), 1e-300), 64), 2 * want[i])) for i in range(len(want)) if allc[i] > 0}
        if len(bins_hit) >= 2 and float(res.sum()) > 0 and (res > 0).sum() >= 2:
            acc.nontrivial += 1
        if node_of is not None:
            for node in sorted(set(node_of)):
                tin = float(allc[np.asarray(node_of) == node].sum())
                tout = float(res.xs(node, level="node").sum())
                if tin != tout:
                    acc.count("matrix: per-node total differs although (or while) grand total judged (reported, not judged)")
    if v is None and nodes is not None and occupied.any() and not occupied.all():
        # sparse storage: every node keeps only the classes it occupies (the nodes then list different classes, the first
        # listed node not all of them)
        s2 = s[occupied]
        res2 = _guard("matrix/sparse-storage", lambda: s2.meanstress_transform.fkm_goodman(pd.Series({"M": M[0], "M2": M[1]}), R).to_pandas(), viol, case)
        if acc is not None:
            acc.evaluations += 1
        if res2 is not None:
            v2 = _guard("matrix/sparse-storage/judge", lambda: _judge_matrix_result(res2, (2.0 * want)[occupied], allc[occupied],
                                                                                  [n_ for n_, o in zip(node_of, occupied) if o]), viol, case)
            if v2 is not None:
                key = "C12/matrix/sparse-storage/%s" % v2[0]
                viol.append((key, case, v2[1]))
    if v is None and nodes is not None and occupied.any():
        # "every matrix index layout": the node level last / in the middle instead of first, and the Haigh parameters as a
        # frame with one row per node (the same values on every node): the same cycles in the same result classes per node
        base = res.sort_index()
        frame = pd.DataFrame({"M": [M[0]] * len(nodes), "M2": [M[1]] * len(nodes)}, index=pd.Index(list(nodes), name="node"))
        names = list(s.index.names)
        for lname, order, prm in (("node-level-last", names[1:] + names[:1], pd.Series({"M": M[0], "M2": M[1]})),
                                  ("node-level-in-the-middle", [names[1], names[0], names[2]], pd.Series({"M": M[0], "M2": M[1]})),
                                  ("per-node-parameter-frame", names, frame),
                                  ("per-node-parameter-frame/node-level-last", names[1:] + names[:1], frame)):
            s3 = s.reorder_levels(order)
            r3 = _guard("matrix/index-layout/" + lname, lambda: s3.meanstress_transform.fkm_goodman(prm, R).to_pandas(), viol, case)
            if acc is not None:
                acc.evaluations += 1
            if r3 is None:
                continue
            bad = None
            if set(r3.index.names) != set(base.index.names):
                bad = {"result_levels": list(r3.index.names), "expected_levels": list(base.index.names)}
            else:
                r3 = r3.reorder_levels(base.index.names).sort_index()
                if len(r3) != len(base) or not r3.index.equals(base.index) or not np.allclose(r3.to_numpy(), base.to_numpy(), rtol=1e-12, atol=0):
                    bad = {"node_first_layout": base.to_numpy(), "this_layout": r3.to_numpy(), "same_classes": bool(len(r3) == len(base) and r3.index.equals(base.index))}
            if bad is not None:
                viol.append(("C12/matrix/index-layout/%s/differs-from-the-node-first-layout" % lname, case, bad))
    if v is not None:
        key = "C12/matrix/%s" % v[0] if v[0] == "cycles-not-conserved" else "C12/interface/matrix-accessor/%s" % v[0]
        viol.append((key, case, v[1]))
    elif nodes is None:
        # history on ONE kept signal object: transform, re-label the classes of the same Series in place (a change of
        # unit: all class limits doubled), transform again - it must answer like a fresh object on the re-labelled Series
        MS = _ms()
        prm = pd.Series({"M": M[0], "M2": M[1]})

        def scaled(idx):
            levels = [pd.IntervalIndex.from_arrays(2.0 * idx.get_level_values(n).left, 2.0 * idx.get_level_values(n).right)
                      for n in idx.names]
            return pd.MultiIndex.from_arrays(levels, names=idx.names)

        def run():
            s2 = s.copy()
            kept = MS.MeanstressTransformMatrix(s2)
            kept.fkm_goodman(prm, R)
            s2.index = scaled(s2.index)
            return kept.fkm_goodman(prm, R).to_pandas()
        got = _guard("matrix-kept-object", run, viol, case)
        if acc is not None:
            acc.evaluations += 2
        if got is not None:
            # the transformation is homogeneous: doubled classes -> doubled transformed ranges (the result's own binning is
            # taken as it comes; only where the cycles land is judged, exactly as for a fresh object)
            v2 = _judge_matrix_result(got, 2.0 * (2.0 * want), allc, None)
            if v2 is not None:
                viol.append(("C12/interface/matrix-accessor/kept-object-after-relabel/%s" % v2[0], case, v2[1]))
        # ONE kept accessor object asked for the same target with other mean stress sensitivities first (a steeper and a
        # flatter diagram: the largest transformed range differs in both directions), then with this one
        for other in ((0.6, 0.2), (0.0, 0.0), (0.15, 0.05)):
            if list(other) == M:
                continue

            def run2(other=other):
                kept = MS.MeanstressTransformMatrix(s.copy())
                kept.fkm_goodman(pd.Series({"M": other[0], "M2": other[1]}), R)
                return kept.fkm_goodman(prm, R).to_pandas()
            got = _guard("matrix-kept-object", run2, viol, case)
            if acc is not None:
                acc.evaluations += 2
            if got is not None:
                v3 = _judge_matrix_result(got, 2.0 * want, allc, None)
                if v3 is not None:
                    viol.append(("C12/interface/matrix-accessor/kept-object-after-other-sensitivity/%s" % v3[0], case,
                                 dict(v3[1], asked_before_with={"M": other[0], "M2": other[1]})))
                    break
    return viol


# ------------------------------------------------------------------------------------------------ driver
EVAL = {"direct": eval_direct, "path": eval_path, "matrix": eval_matrix}


def run_shard(shard):
    acc = Acc()
    kind = shard[0]
    if kind == "direct":
        _, tier, d, R, other = shard
        sp = SPACE[tier]
        cyc = _lattice(tier)
        rd = _refdiag(d)
        case = {"kind": "direct", "diagram": d, "R": R, "other": other, "cyc": cyc,
                "tgt": [[a, ref.mean_at(a, R)] for a in sp["amplitudes"]],
                "mono": _mono_groups(cyc), "cont": _continuity_groups(rd, sp["means"]),
                "singles": R in _single_R(tier), "ifaces": True}
        found = eval_direct(case, acc)
        full = dict(case)
        _record_direct(acc, found, full)
        if R == sp["R"][0]:
            acc.sample({"kind": "direct", "diagram": d, "R_goal": R, "cycles": len(cyc), "continuity_triples": len(case["cont"])})
    elif kind == "path":
        _, tier, d, R2 = shard
        case = {"kind": "path", "diagram": d, "R1s": SPACE[tier]["R"], "R2": R2, "cyc": _lattice(tier)}
        found = eval_path(case, acc)
        _record_direct(acc, found, case)
    else:
        _, geom, nodes, M, R, cvs = shard
        for counts in cvs:
            case = {"kind": "matrix", "geom": geom, "nodes": nodes, "M": M, "R": R, "counts": counts}
            for key, c, detail in eval_matrix(case, acc):
                acc.violation(key, c, detail)
        acc.sample({"kind": "matrix", "geometry": geom, "nodes": nodes, "M,M2": M, "R_goal": R, "count_vectors": len(cvs), "first": cvs[0]})
    return acc


def _record_direct(acc, found, full_case):
    for key, mini, detail in found:
        if key in acc.viol:
            acc.viol[key][0] += 1
            continue
        again = EVAL[mini["kind"]](mini)
        hit = [dd for k, _, dd in again if k == key]
        if hit:
            mini, detail = _shrink(key, mini, hit[0])
            acc.violation(key, mini, detail)
        else:
            # shows only inside the full batch: keep the batch as the case (replay re-runs it)
            acc.violation(key, full_case, detail)


def _shrink(key, case, detail):
    """Greedy one-at-a-time removal of cycles from a failing collective (only runs when a violation was found)."""
    if case["kind"] != "direct" or len(case.get("cyc", [])) <= 1:
        return case, detail
    cyc = list(case["cyc"])
    i = 0
    while i < len(cyc) and len(cyc) > 1:
        trial = dict(case, cyc=cyc[:i] + cyc[i + 1:])
        hit = [dd for k, _, dd in eval_direct(trial) if k == key]
        if hit:
            cyc, detail = trial["cyc"], hit[0]
        else:
            i += 1
    return dict(case, cyc=cyc), detail


def replay(case):
    found = EVAL[case["kind"]](case)
    return [(k, d) for k, _, d in found]
