"""C15 - failure probability = analytic overlap of log-normal load and log-normal strength.

Lattice: strength median x strength std x load std x z, where z = (lg load median - lg strength median) / sigma_tot
runs over a line from -7 to 7 (failure probabilities 1e-12 .. 1 - 1e-12).  Every (median, std, std) combination is
scanned along two lines that realise the same z values: the load median varies at fixed strength median, and the
strength median varies at fixed load median.  Oracle Phi(z) from statistics.NormalDist (no scipy in the reference).
Two ladders: load scatter -> 0 against pf_simple_load, and pf_arbitrary_load with a sampled log-normal density on
201 / 801 / 3201 points.
"""
import itertools
import math
import warnings
from statistics import NormalDist

import numpy as np

from mc.explore import Acc, chunked

ID = "C15"
LEVEL = "exploration"
RULE = ("product lattice strength median x strength std x load std x scan line {load median varies, strength median "
        "varies} x all z of the line; one case = one scan line (all z), one evaluation = one pf_* call; ladders: the same "
        "(median, std) lattice x z0 in {-3, -1, 0, 0.5, 2}; non-trivial = scan line whose std ratio load/strength is >= 20 or "
        "<= 1/20 (quadrature has to resolve a feature much narrower than its interval)")
ASSUMPTIONS = [
    "tolerance |p - Phi(z)| <= 1e-9 + 1e-4 min(Phi, 1 - Phi) (DESIGN.md C15): quadrature, not closed form",
    "lower tail (1e-12 <= Phi < 1e-6): additionally |p - Phi| <= 0.25 Phi for pf_norm_load (the absolute 1e-9 is vacuous there; the upper "
    "tail cannot be judged relatively because 1 - p does not resolve below quad's absolute tolerance) and <= 1e-3 Phi for the finest rung of "
    "the sampled-density ladder at z0 = -6, -5",
    "monotony is judged up to the same absolute 1e-9; strict increase is demanded where Phi(z) itself grows by more than 1e-6",
    "'tends to the deterministic-load value': errors against pf_simple_load for load std 1e-3, 1e-4, 1e-5 do not grow (slack 1e-9) "
    "and the last one is within the tolerance above of the analytic difference Phi(z0 s/sqrt(s^2 + 1e-10)) - Phi(z0)",
    "'converges' for the sampled density: trapezoid grids of 201/801/3201 points over +-8 load std; the error of a finer grid may "
    "not exceed that of a coarser one (slack 1e-9) once the coarser grid resolves the strength scatter (spacing <= strength std), "
    "and the finest error is <= 1e-4 when the finest grid resolves it; unresolved combinations are counted, not judged",
    "pf_arbitrary_load takes lg(load) values and a density over lg(load), as the repository's own test uses it",
]

_N01 = NormalDist()
TOL_ABS, TOL_REL = 1e-9, 1e-4
Z0S = (-3.0, -1.0, 0.0, 0.5, 2.0)
Z0S_TAIL = (-6.0, -5.0)      # sampled-density ladder in the far lower tail (judged relatively, on the finest rung)
TAIL_REL = 0.25              # lower tail (1e-12 <= Phi < 1e-6) of pf_norm_load: |p - Phi| <= 0.25 Phi.  The absolute 1e-9 of the
                             # main clause is vacuous there; observed on the repaired tree: <= 5 % (quad stops on its absolute
                             # tolerance), so 25 % separates "right order of magnitude" from "0, 1 or a collapsed tail"
LADDER_TAIL_REL = 1e-3       # finest rung of the sampled-density ladder, observed 6e-7
VANISH = (1e-3, 1e-4, 1e-5)
GRIDS = (201, 801, 3201)


def _lattice(tier):
    if tier == "quick":
        return {"strength_median": (10.0, 100.0, 1e3), "strength_std": (0.005, 0.02, 0.05, 0.1, 0.3),
                "load_std": (0.001, 0.005, 0.02, 0.05, 0.1, 0.3, 1.0), "z": [k / 2 for k in range(-14, 15)]}
    return {"strength_median": (1.0, 10.0, 100.0, 1e3, 1e6), "strength_std": (0.001, 0.005, 0.02, 0.05, 0.1, 0.3),
            "load_std": (0.001, 0.005, 0.02, 0.05, 0.1, 0.3, 1.0, 3.0), "z": [k / 4 for k in range(-28, 29)]}


def bounds(tier):
    b = dict(_lattice(tier))
    b["scan_lines"] = ("load-median-varies", "strength-median-varies")
    b["vanishing_load_std_ladder"] = VANISH
    b["arbitrary_load_grid_points"] = GRIDS
    b["ladder_z0"] = Z0S + Z0S_TAIL
    b["call_histories"] = {"depth": HIST_DEPTH[tier], "objects (strength median, std)": _H_OBJ, "operations": ["%s.%s" % o for o in HIST_OPS]}
    b["lower_tail_relative_tolerance"] = {"pf_norm_load (1e-12 <= Phi < 1e-6)": TAIL_REL, "pf_arbitrary_load finest rung": LADDER_TAIL_REL}
    return b


def shards(tier):
    lat = _lattice(tier)
    scans = [{"part": "scan", "sm": sm, "ss": ss, "ls": ls, "line": line, "tier": tier}
             for ss, ls, sm, line in itertools.product(lat["strength_std"], lat["load_std"], lat["strength_median"],
                                                       ("load-median-varies", "strength-median-varies"))]
    # simplest first: comparable scatter, then extreme ratios
    scans.sort(key=lambda c: abs(math.log10(c["ls"] / c["ss"])))
    ladders = [{"part": "ladder", "sm": sm, "ss": ss, "ls": ls} for ss, ls, sm in
               itertools.product(lat["strength_std"], lat["load_std"], lat["strength_median"])]
    vanish = [{"part": "vanish", "sm": sm, "ss": ss} for ss, sm in itertools.product(lat["strength_std"], lat["strength_median"])]
    return ([("scan", b) for b in chunked(scans, 4)] + [("ladder", b) for b in chunked(ladders, 40)]
            + [("vanish", b) for b in chunked(vanish, 4)]
            + [("history", 1, ())] + [("history", HIST_DEPTH[tier], (i,)) for i in range(len(HIST_OPS))])


def _tol(e):
    return TOL_ABS + TOL_REL * min(e, 1.0 - e)


def _ratio_class(ss, ls):
    r = ls / ss
    if r >= 20:
        return "strength-much-narrower-than-load"
    if r <= 1 / 20:
        return "load-much-narrower-than-strength"
    return "comparable-scatter"


def _raised(e, part):
    import traceback
    tb = traceback.extract_tb(e.__traceback__)
    where = [f for f in tb if "/pylife/" in f.filename]
    if not where:
        raise e
    return ("C15/%s/raises-%s" % (part, type(e).__name__),
            {"error": str(e)[:300], "where": "%s:%s" % (where[-1].filename.split("/pylife/")[-1], where[-1].name)})


def _zs(tier):
    return _lattice(tier)["z"]


def check_scan(case):
    from pylife.strength.failure_probability import FailureProbability
    sm, ss, ls, line = case["sm"], case["ss"], case["ls"], case["line"]
    zs = _zs(case["tier"])
    tot = math.hypot(ss, ls)
    cls = _ratio_class(ss, ls)
    viol, ps, nev = [], [], 0
    worst = None
    try:
        with warnings.catch_warnings():
            warnings.simplefilter("ignore")
            # load-median line: ONE strength object answers the whole sweep (the natural use: one component, many load
            # levels) - whatever the object remembers from earlier calls must not leak into later ones
            kept = FailureProbability(sm, ss)
            for z in zs:
                if line == "load-median-varies":
                    p = kept.pf_norm_load(10 ** (math.log10(sm) + z * tot), ls)
                else:
                    p = FailureProbability(10 ** (math.log10(sm) - z * tot), ss).pf_norm_load(sm, ls)
                nev += 1
                ps.append(float(p))
            # a load the object has not seen yet, first asked with truncating limits (a load limiter), then without: the
            # answer for the untruncated load must be that of a fresh object
            if line == "load-median-varies":
                zq = zs[len(zs) // 2] + 0.37
                Lq = 10 ** (math.log10(sm) + zq * tot)
                kept.pf_norm_load(Lq, ls, upper_limit=math.log10(Lq) + 0.5 * ls)
                kept.pf_norm_load(Lq, ls, lower_limit=math.log10(Lq) - 0.25 * ls)
                again = float(kept.pf_norm_load(Lq, ls))
                fresh = float(FailureProbability(sm, ss).pf_norm_load(Lq, ls))
                nev += 4
                if again != fresh:
                    viol.append(("C15/pf_norm_load/answer-differs-after-questions-with-limits",
                                 {"z": zq, "fresh_object": fresh, "kept_object_after_questions_with_limits": again}))
    except Exception as e:
        return [_raised(e, "pf_norm_load")], nev, ()
    for z, p in zip(zs, ps):
        e = _N01.cdf(z)
        err = abs(p - e)
        if not (err <= _tol(e)) and (worst is None or err / _tol(e) > worst[0]):
            worst = (err / _tol(e), z, p, e)
    if worst is not None:
        nbad = sum(1 for z, p in zip(zs, ps) if not (abs(p - _N01.cdf(z)) <= _tol(_N01.cdf(z))))
        viol.append(("C15/pf_norm_load/value/%s" % cls,
                     {"worst_z": worst[1], "got": worst[2], "Phi(z)": worst[3], "abs_error": abs(worst[2] - worst[3]),
                      "tolerance": _tol(worst[3]), "z_values_out_of_tolerance": nbad, "std_ratio_load/strength": ls / ss}))
    tail = [(z, p, _N01.cdf(z)) for z, p in zip(zs, ps) if 1e-12 <= _N01.cdf(z) < 1e-6 and not abs(p - _N01.cdf(z)) <= TAIL_REL * _N01.cdf(z)]
    if tail:
        viol.append(("C15/pf_norm_load/lower-tail-relative/%s" % cls,
                     {"(z, got, Phi(z))": tail[:4], "allowed_relative_error": TAIL_REL, "std_ratio_load/strength": ls / ss}))
    if any(not (0.0 <= p <= 1.0) for p in ps):
        bad = [(z, p) for z, p in zip(zs, ps) if not (0.0 <= p <= 1.0)]
        viol.append(("C15/pf_norm_load/outside-unit-interval", {"(z, p)": bad[:5]}))
    for (z1, p1), (z2, p2) in zip(zip(zs[:-1], ps[:-1]), zip(zs[1:], ps[1:])):
        grow = _N01.cdf(z2) - _N01.cdf(z1)
        if p2 < p1 - TOL_ABS or (grow > 1e-6 and not p2 > p1):
            what = "load-median" if line == "load-median-varies" else "strength-median"
            viol.append(("C15/pf_norm_load/not-monotone-in-%s" % what, {"z": [z1, z2], "p": [p1, p2], "std_ratio_load/strength": ls / ss}))
            break
    return viol, nev, tuple(ps)


def check_vanish(case):
    from pylife.strength.failure_probability import FailureProbability
    sm, ss = case["sm"], case["ss"]
    viol, nev, out = [], 0, []
    try:
        with warnings.catch_warnings():
            warnings.simplefilter("ignore")
            fp = FailureProbability(sm, ss)
            for z0 in Z0S:
                L = 10 ** (math.log10(sm) + z0 * ss)
                simple = float(fp.pf_simple_load(L))
                nev += 1
                e = _N01.cdf(z0)
                if not (abs(simple - e) <= 1e-12 + 1e-9 * min(e, 1 - e)):
                    viol.append(("C15/pf_simple_load/value", {"z0": z0, "got": simple, "strength_cdf_at_load": e}))
                errs = []
                for s in VANISH:
                    errs.append(abs(float(fp.pf_norm_load(L, s)) - simple))
                    nev += 1
                out.append(tuple(errs))
                if errs[1] > errs[0] + TOL_ABS or errs[2] > errs[1] + TOL_ABS:
                    viol.append(("C15/vanishing-load-scatter/error-grows", {"z0": z0, "load_std": VANISH, "abs_error_vs_simple": errs}))
                else:
                    # what remains at the smallest load std must be explained by the analytic overlap itself
                    gap = abs(_N01.cdf(z0 * ss / math.hypot(ss, VANISH[-1])) - e)
                    if not (errs[2] <= gap + _tol(e)):
                        viol.append(("C15/vanishing-load-scatter/limit-not-reached",
                                     {"z0": z0, "load_std": VANISH, "abs_error_vs_simple": errs, "analytic_gap_at_smallest_std": gap,
                                      "tolerance": _tol(e)}))
    except Exception as e:
        viol.append(_raised(e, "vanishing-load-scatter"))
    return viol, nev, tuple(out)


def _normal_pdf(x, mu, s):
    return math.exp(-0.5 * ((x - mu) / s) ** 2) / (s * math.sqrt(2 * math.pi))


def check_ladder(case):
    """pf_arbitrary_load with the log-normal density sampled on finer and finer grids."""
    from pylife.strength.failure_probability import FailureProbability
    sm, ss, ls = case["sm"], case["ss"], case["ls"]
    tot = math.hypot(ss, ls)
    viol, nev, out, stats = [], 0, [], {"unresolved_finest": 0, "unresolved_pairs": 0}
    try:
        fp = FailureProbability(sm, ss)
        # one grid buffer per size, refilled IN PLACE for one load level after the other (consecutive calls on the same
        # object with the very same array object, whose contents have changed)
        P = {}
        for n in GRIDS:
            x = np.empty(n)
            for z0 in Z0S + Z0S_TAIL:
                lm = math.log10(sm) + z0 * tot
                x[:] = np.linspace(lm - 8 * ls, lm + 8 * ls, n)
                pdf = np.array([_normal_pdf(v, lm, ls) for v in x])
                P[(z0, n)] = float(fp.pf_arbitrary_load(x, pdf))
                nev += 1
        # the same pair of arrays (one sampled load density) handed to several calls: asked again, asked of another
        # strength object, asked again - the answers for the same question must be the same number
        n = GRIDS[1]
        lm = math.log10(sm) + Z0S[0] * tot
        x = np.linspace(lm - 8 * ls, lm + 8 * ls, n)
        pdf = np.array([_normal_pdf(v, lm, ls) for v in x])
        first = float(fp.pf_arbitrary_load(x, pdf))
        again = float(fp.pf_arbitrary_load(x, pdf))
        float(FailureProbability(1.1 * sm, ss).pf_arbitrary_load(x, pdf))
        third = float(fp.pf_arbitrary_load(x, pdf))
        nev += 4
        if not (first == again == third):
            viol.append(("C15/pf_arbitrary_load/same-arrays-asked-again", {"z0": Z0S[0], "grid_points": n, "answers": [first, again, third]}))
        for z0 in Z0S + Z0S_TAIL:
            e = _N01.cdf(z0)
            errs = [abs(P[(z0, n)] - e) for n in GRIDS]
            hs = [16 * ls / (n - 1) for n in GRIDS]
            out.append(tuple(round(v, 12) for v in errs))
            for k in (0, 1):
                if hs[k] <= ss:
                    if errs[k + 1] > errs[k] + TOL_ABS:
                        viol.append(("C15/pf_arbitrary_load/error-grows-with-refinement",
                                     {"z0": z0, "grid_points": GRIDS, "abs_error": errs, "grid_spacing": hs, "strength_std": ss}))
                        break
                else:
                    stats["unresolved_pairs"] += 1
            if hs[2] <= ss:
                if not (errs[2] <= 1e-4):
                    viol.append(("C15/pf_arbitrary_load/not-converged", {"z0": z0, "grid_points": GRIDS, "abs_error": errs}))
                elif z0 in Z0S_TAIL and not (errs[2] <= LADDER_TAIL_REL * e):
                    viol.append(("C15/pf_arbitrary_load/lower-tail-relative", {"z0": z0, "Phi(z0)": e, "abs_error_finest": errs[2],
                                                                               "allowed_relative_error": LADDER_TAIL_REL}))
            else:
                stats["unresolved_finest"] += 1
    except Exception as e:
        viol.append(_raised(e, "pf_arbitrary_load"))
    return viol, nev, tuple(out), stats


# ------------------------------------------------------------------------------------------------- call histories
# Every sequence of questions up to a depth on two KEPT FailureProbability objects (different strengths) with caller-owned
# density arrays, and caller actions in between (refill the density arrays in place, overwrite the array returned last).
# Oracle for every answer: it is the answer a fresh object gives to that question asked first (relative 1e-12; questions
# without limits additionally within the check's tolerance of Phi(z)); argument arrays are left as they were.
HIST_DEPTH = {"quick": 3, "thorough": 4}
_H_OBJ = {"F0": (100.0, 0.05), "F1": (300.0, 0.2)}
_H_Q = ("simple", "simple-array", "norm-A", "norm-B", "norm-A-lower", "norm-A-upper", "norm-A-both", "arbitrary-X", "arbitrary-Y")
HIST_OPS = [(o, q) for o in ("F0", "F1") for q in _H_Q] + [("caller", "refill-density-arrays"), ("caller", "overwrite-last-result")]
_H_NORM = {"norm-A": (120.0, 0.1), "norm-B": (60.0, 0.02)}


def _h_pdf(x, mu, sd):
    return np.exp(-0.5 * ((x - mu) / sd) ** 2) / (sd * math.sqrt(2 * math.pi))


def _h_world():
    from pylife.strength.failure_probability import FailureProbability
    x = np.linspace(1.0, 3.2, 801)
    return {"obj": {k: FailureProbability(*v) for k, v in _H_OBJ.items()},
            "X": x.copy(), "Xp": _h_pdf(x, 2.1, 0.1), "Y": x.copy(), "Yp": _h_pdf(x, 2.4, 0.25),
            "alt": False, "loads": np.array([80.0, 150.0, 400.0]), "held": [], "last": None}


def _h_ask(w, o, q):
    f = w["obj"][o]
    if q == "simple":
        return f.pf_simple_load(150.0)
    if q == "simple-array":
        return f.pf_simple_load(w["loads"])
    if q in _H_NORM:
        return f.pf_norm_load(*_H_NORM[q])
    if q.startswith("norm-A-"):
        m, sd = _H_NORM["norm-A"]
        kw = {}
        if q in ("norm-A-lower", "norm-A-both"):
            kw["lower_limit"] = math.log10(m) - 0.5 * sd
        if q in ("norm-A-upper", "norm-A-both"):
            kw["upper_limit"] = math.log10(m) + 1.0 * sd
        return f.pf_norm_load(m, sd, **kw)
    return f.pf_arbitrary_load(w["X"], w["Xp"]) if q == "arbitrary-X" else f.pf_arbitrary_load(w["Y"], w["Yp"])


def _h_step(w, oi):
    """-> (question key or None, answer as list or None, exception or None)"""
    o, q = HIST_OPS[oi]
    if o == "caller":
        if q == "refill-density-arrays":
            w["alt"] = not w["alt"]
            w["Xp"][:] = _h_pdf(w["X"], 2.3 if w["alt"] else 2.1, 0.1)
            w["Yp"][:] = _h_pdf(w["Y"], 2.0 if w["alt"] else 2.4, 0.25)
        elif w["last"] is not None and isinstance(w["held"][w["last"]][1], np.ndarray) and w["held"][w["last"]][1].ndim \
                and w["held"][w["last"]][1].flags.writeable:
            w["held"][w["last"]][1][...] = -1.0
            w["held"][w["last"]][2] = w["held"][w["last"]][1].copy()
        return None, None, None
    try:
        with warnings.catch_warnings():
            warnings.simplefilter("ignore")
            res = _h_ask(w, o, q)
    except Exception as e:      # noqa: BLE001
        return (oi, w["alt"] and q.startswith("arbitrary")), None, e
    w["held"].append(["%s.%s" % (o, q), res, np.array(res, dtype=float, copy=True)])
    w["last"] = len(w["held"]) - 1
    return (oi, w["alt"] and q.startswith("arbitrary")), np.asarray(res, dtype=float).reshape(-1).tolist(), None


def history_run(seq, fresh, acc=None):
    w = _h_world()
    for depth, oi in enumerate(seq):
        o, q = HIST_OPS[oi]
        here = "%s.%s" % (o, q)
        snap = [w[k].copy() for k in ("X", "Xp", "Y", "Yp", "loads")]
        key, got, exc = _h_step(w, oi)
        if key is None:
            continue
        if acc is not None:
            acc.transitions += 1
            acc.evaluations += 1
        if exc is not None:
            return [("C15/history/%s-raises-%s" % (q, type(exc).__name__), {"at": depth, "message": str(exc)[:160]})]
        if any(not np.array_equal(a, w[k]) for a, k in zip(snap, ("X", "Xp", "Y", "Yp", "loads"))):
            return [("C15/history/%s-changes-the-callers-arrays" % q, {"at": depth})]
        want = fresh[key]
        if len(got) != len(want) or any(not abs(a - b) <= 1e-12 * max(abs(b), 1e-300) + 1e-300 for a, b in zip(got, want)):
            return [("C15/history/%s-answer-depends-on-what-was-asked-before" % q,
                     {"at": depth, "question": here, "got": got, "fresh_object_asked_first": want})]
        for name, obj, snapres in w["held"][:-1]:
            if isinstance(obj, np.ndarray) and not np.array_equal(obj, snapres):
                return [("C15/history/result-held-by-the-caller-changed-by-a-later-call", {"at": depth, "held": name, "later_call": here})]
    return []


def _h_fresh():
    """every question asked first on a fresh world (both fillings of the density arrays) + the analytic value where there is one"""
    fresh, viol = {}, []
    for alt in (False, True):
        for oi, (o, q) in enumerate(HIST_OPS):
            if o == "caller" or (alt and not q.startswith("arbitrary")):
                continue
            w = _h_world()
            if alt:
                _h_step(w, HIST_OPS.index(("caller", "refill-density-arrays")))
            key, got, exc = _h_step(w, oi)
            if exc is not None:
                viol.append(("C15/history/%s-raises-%s" % (q, type(exc).__name__), {"message": str(exc)[:160]}))
                got = [math.nan]
            fresh[key] = got
            sm, ss = _H_OBJ[o]
            if q in _H_NORM and exc is None:
                m, sd = _H_NORM[q]
                e = _N01.cdf((math.log10(m) - math.log10(sm)) / math.hypot(ss, sd))
                if not abs(got[0] - e) <= _tol(e):
                    viol.append(("C15/history/%s-not-the-analytic-overlap" % q, {"object": o, "got": got[0], "expected": e}))
            if q == "simple" and exc is None:
                e = _N01.cdf((math.log10(150.0) - math.log10(sm)) / ss)
                if not abs(got[0] - e) <= 1e-12:
                    viol.append(("C15/history/simple-not-the-strength-cdf", {"object": o, "got": got[0], "expected": e}))
    return fresh, viol


def run_history(shard, acc):
    _, depth, prefix = shard
    fresh, viol = _h_fresh()
    for key, detail in viol:
        acc.violation(key, {"part": "history", "seq": []}, detail)
    nops = range(len(HIST_OPS))
    for d in range(max(1, len(prefix)), depth + 1):
        for rest in itertools.product(nops, repeat=d - len(prefix)):
            seq = tuple(prefix) + rest
            acc.cases += 1
            acc.max_depth = max(acc.max_depth, d)
            if len({HIST_OPS[i][0] for i in seq}) >= 2:
                acc.nontrivial += 1
            for key, detail in history_run(seq, fresh, acc):
                acc.violation(key, {"part": "history", "seq": list(seq), "ops": ["%s.%s" % HIST_OPS[i] for i in seq]}, detail)
    acc.states += len(fresh)
    acc.outcomes |= {hash((k, tuple(v))) for k, v in fresh.items()}


def run_shard(shard):
    acc = Acc()
    if shard[0] == "history":
        run_history(shard, acc)
        return acc
    kind, block = shard
    for case in block:
        acc.cases += 1
        if kind == "scan":
            viol, nev, outcome = check_scan(case)
            acc.count("scan_lines")
            cls = _ratio_class(case["ss"], case["ls"])
            acc.count("scan_lines/" + cls)
            if cls != "comparable-scatter":
                acc.nontrivial += 1
            if len(acc.samples) < 1 and case["ls"] / case["ss"] >= 50 and case["line"] == "load-median-varies":
                acc.sample({"case": case, "p(z) at z = -1, 0, 1": [outcome[i] for i in
                                                                  (_zs(case["tier"]).index(-1.0), _zs(case["tier"]).index(0.0), _zs(case["tier"]).index(1.0))]
                            if outcome else None})
        elif kind == "vanish":
            viol, nev, outcome = check_vanish(case)
            acc.count("vanishing_scatter_ladders", len(Z0S))
            acc.nontrivial += 1
        else:
            viol, nev, outcome, stats = check_ladder(case)
            acc.count("arbitrary_load_ladders", len(Z0S))
            acc.count("arbitrary_load_ladders_finest_grid_does_not_resolve_strength_std (not judged)", stats["unresolved_finest"])
            acc.count("arbitrary_load_rung_pairs_coarser_grid_unresolved (not judged)", stats["unresolved_pairs"])
            if stats["unresolved_finest"] == 0:
                acc.nontrivial += 1
        acc.evaluations += nev
        acc.outcomes.add(hash(outcome))
        for key, detail in viol:
            acc.violation(key, case, detail)
    return acc


def replay(case):
    if case["part"] == "history":
        fresh, viol = _h_fresh()
        return viol + history_run(case["seq"], fresh)
    if case["part"] == "scan":
        return check_scan(case)[0]
    if case["part"] == "vanish":
        return check_vanish(case)[0]
    return check_ladder(case)[0]
