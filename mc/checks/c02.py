"""C02 - detectors realise the counting definitions and lose no turning point.

Every float signal over a small integer alphabet up to the length bound is run through the three real
detectors (one call) and compared with the executable definitions in mc/refs/rainflow.py.
"""
import collections

import numpy as np

from mc import build_ext
from mc.explore import Acc, signals, chunked
from mc.refs import rainflow as ref

ID = "C02"
LEVEL = "exploration"
RULE = ("all float signals of length 2..n over the integer alphabet (every tie, plateau, constant stretch and repeated "
        "extreme of that scope); each is one case; non-trivial = signal whose reference count has >=1 closed cycle and "
        "(a tie between neighbouring ranges, or a plateau, or an extreme reached twice)")
ASSUMPTIONS = [
    "the reference four-point / HCM definitions in mc/refs/rainflow.py are the textbook rules (two independently "
    "coded four-point references are cross-checked against each other on the whole space)",
    "integer-valued alphabets maximise ties; closing rules depend on order relations only",
    "rainflow_ext is rebuilt from the working tree's extension.pyx before the run",
]

A5 = (-2.0, -1.0, 0.0, 1.0, 2.0)
A7 = (-3.0, -2.0, -1.0, 0.0, 1.0, 2.0, 3.0)
A9 = (-4.0, -3.0, -2.0, -1.0, 0.0, 1.0, 2.0, 3.0, 4.0)
TINY = 2.0 ** -28
NEAR = (0.0, 1.0, 1.0 + TINY, 2.0 - TINY, 2.0)                  # distinct values closer than any plausible tolerance
SMALL = tuple(2.0 ** -30 * v for v in (-2.0, -1.0, 0.0, 1.0, 2.0))   # a whole signal of tiny magnitude


def bounds(tier):
    if tier == "quick":
        return [{"alphabet": A5, "n": [2, 7]}, {"alphabet": "near ties " + repr(NEAR), "n": [2, 6]}, {"alphabet": "2**-30 * {-2..2}", "n": [2, 5]},
                {"alphabet": A7, "n": [3, 9], "only": "strictly alternating signals (pure reversal sequences, deep nesting)"}]
    return [{"alphabet": A5, "n": [2, 9]}, {"alphabet": A7, "n": [2, 7]}, {"alphabet": "near ties " + repr(NEAR), "n": [2, 8]},
            {"alphabet": "2**-30 * {-2..2}", "n": [2, 7]},
            {"alphabet": A7, "n": [3, 10], "only": "strictly alternating signals"}, {"alphabet": A9, "n": [3, 8], "only": "strictly alternating signals"}]


def prepare(tier):
    build_ext.ensure()


def alternating(alpha, n):
    """all signals of length n over alpha whose consecutive steps strictly alternate in direction (every interior
    sample is a reversal): the kernels' stack logic sees only reversal sequences, so this reaches deep nesting cheaply"""
    def rec(prefix, up):
        if len(prefix) == n:
            yield tuple(prefix)
            return
        last = prefix[-1]
        for v in alpha:
            if (v > last) if up else (v < last):
                prefix.append(v)
                yield from rec(prefix, not up)
                prefix.pop()
    for first in alpha:
        for up in (True, False):
            yield from rec([first], up)


def shards(tier):
    if tier == "quick":
        plan = [(A5, 2, 7), (NEAR, 2, 6), (SMALL, 2, 5)]
        alt = [(A7, 3, 9)]
    else:
        plan = [(A5, 2, 9), (A7, 2, 7), (NEAR, 2, 8), (SMALL, 2, 7)]
        alt = [(A7, 3, 10), (A9, 3, 8)]
    out = []
    for alpha, nmin, nmax in plan:
        for n in range(nmin, nmax + 1):
            for block in chunked(signals(alpha, n, n), 4000):
                out.append(block)
    for alpha, nmin, nmax in alt:
        for n in range(nmin, nmax + 1):
            for block in chunked(alternating(alpha, n), 4000):
                out.append(block)
    return out


class Raised(Exception):
    pass


def _run(detname, sig):
    import pylife.stress.rainflow as RF
    det = getattr(RF, detname)(recorder=RF.FullRecorder())
    try:
        det.process(np.array(sig, dtype=float))
    except Exception as e:  # noqa: BLE001
        raise Raised(detname, type(e).__name__, str(e)[:200])
    rec = det.recorder
    return (np.asarray(rec.values_from, dtype=float).tolist(), np.asarray(rec.values_to, dtype=float).tolist(),
            [int(i) for i in rec.index_from], [int(i) for i in rec.index_to],
            np.asarray(det.residuals, dtype=float).tolist(), [int(i) for i in det.residual_index])


def check_signal(sig):
    try:
        return _check_signal(sig)
    except Raised as r:
        return [("C02/%s/raises-%s" % (r.args[0], r.args[1]), {"error": r.args[2]})], False, ("raised",) + r.args[:2]


def _check_signal(sig):
    """Returns (list of (key, detail), nontrivial flag, outcome)."""
    import pylife.stress.rainflow as RF
    sig = [float(x) for x in sig]
    viol = []
    tp = ref.turning_points(sig)
    cyc, res = ref.four_point(tp)
    cyc2, res2 = ref.four_point_rescan(tp)
    if (cyc, res) != (cyc2, res2):
        viol.append(("C02/reference-self-disagreement", {"stack": [cyc, res], "rescan": [cyc2, res2]}))
    exp_cycles = [(b[1], c[1], b[0], c[0]) for b, c in cyc]
    exp_res_v = [p[1] for p in res]
    exp_res_i = [p[0] for p in res]

    # find_turns itself (observe_at): interior reversals
    idx, vals = RF.find_turns(np.array(sig, dtype=float))
    exp_int = ref.interior_reversals(sig)
    if [int(i) for i in idx] != [p[0] for p in exp_int] or np.asarray(vals).tolist() != [p[1] for p in exp_int]:
        viol.append(("C02/find_turns", {"got": [np.asarray(idx).tolist(), np.asarray(vals).tolist()], "expected": exp_int}))

    # four-point: identical sequence
    vf, vt, i_f, i_t, rv, ri = _run("FourPointDetector", sig)
    got = list(zip(vf, vt, i_f, i_t))
    if got != exp_cycles:
        viol.append(("C02/FourPointDetector/cycles", {"got": got, "expected": exp_cycles}))
    if rv != exp_res_v or ri != exp_res_i:
        viol.append(("C02/FourPointDetector/residual", {"got": [rv, ri], "expected": [exp_res_v, exp_res_i]}))
    viol += _accounting("FourPointDetector", sig, tp, i_f, i_t, ri, vf, vt, rv)

    # three-point: same multiset, same residual
    vf3, vt3, i_f3, i_t3, rv3, ri3 = _run("ThreePointDetector", sig)
    got3 = collections.Counter(zip(vf3, vt3, i_f3, i_t3))
    if got3 != collections.Counter(exp_cycles):
        viol.append(("C02/ThreePointDetector/cycles", {"got": sorted(got3.elements()), "expected": sorted(exp_cycles)}))
    if rv3 != exp_res_v or ri3 != exp_res_i:
        viol.append(("C02/ThreePointDetector/residual", {"got": [rv3, ri3], "expected": [exp_res_v, exp_res_i]}))
    viol += _accounting("ThreePointDetector", sig, tp, i_f3, i_t3, ri3, vf3, vt3, rv3)

    # FKM: HCM on interior reversals
    hc, hres = ref.hcm([p[1] for p in exp_int])
    vfk, vtk, _, _, rvk, _ = _run("FKMDetector", sig)
    if list(zip(vfk, vtk)) != hc:
        viol.append(("C02/FKMDetector/cycles", {"got": list(zip(vfk, vtk)), "expected": hc, "reversals": [p[1] for p in exp_int]}))
    elif rvk != hres:
        viol.append(("C02/FKMDetector/residual", {"got": rvk, "expected": hres, "reversals": [p[1] for p in exp_int]}))
    # HCM accounting: every interior reversal is used exactly once
    used = collections.Counter(vfk) + collections.Counter(vtk) + collections.Counter(rvk)
    if used != collections.Counter(p[1] for p in exp_int):
        viol.append(("C02/FKMDetector/turning-point-accounting", {"used": sorted(used.elements()), "reversals": [p[1] for p in exp_int]}))

    ranges = [abs(tp[i + 1][1] - tp[i][1]) for i in range(len(tp) - 1)]
    ties = any(ranges[i] == ranges[i + 1] for i in range(len(ranges) - 1))
    plateau = any(sig[i] == sig[i + 1] for i in range(len(sig) - 1))
    tv = [p[1] for p in tp]
    twice = tv.count(max(tv)) > 1 or tv.count(min(tv)) > 1
    nontrivial = len(cyc) >= 1 and (ties or plateau or twice)
    outcome = (tuple(exp_cycles), tuple(exp_res_i), tuple(hc), tuple(hres))
    return viol, nontrivial, outcome


def _accounting(detname, sig, tp, i_f, i_t, ri, vf, vt, rv):
    out = []
    used = collections.Counter(i_f) + collections.Counter(i_t) + collections.Counter(ri)
    expected = collections.Counter(p[0] for p in tp)
    if len(sig) == 1:
        return out
    if used != expected:
        out.append(("C02/%s/turning-point-accounting" % detname, {"used": sorted(used.elements()), "turning_points": sorted(expected.elements())}))
    for idx, val in list(zip(i_f, vf)) + list(zip(i_t, vt)) + list(zip(ri, rv)):
        if not (0 <= idx < len(sig)) or sig[idx] != val:
            out.append(("C02/%s/index-addresses-wrong-sample" % detname, {"index": idx, "value": val}))
            break
    return out


def run_shard(block):
    prepare(None)
    acc = Acc()
    for sig in block:
        acc.cases += 1
        acc.evaluations += 4
        viol, nontrivial, outcome = check_signal(sig)
        if nontrivial:
            acc.nontrivial += 1
            if len(acc.samples) < 1 and len(outcome[0]) >= 2:
                acc.sample({"signal": list(sig), "four_point_cycles(from,to,i_from,i_to)": outcome[0], "residual_index": outcome[1],
                            "hcm_cycles": outcome[2], "hcm_residual": outcome[3]})
        acc.outcomes.add(hash(outcome))
        for key, detail in viol:
            acc.violation(key, {"signal": list(sig)}, detail)
    return acc


def replay(case):
    viol, _, _ = check_signal(case["signal"])
    return viol
