"""C20 - VMAP export followed by import returns the same mesh and fields; a failed export leaves nothing partial.

System   : one real VMAPExport on a scratch HDF5 file (+ real VMAPImport as the observer) and a plain dict
           reference model (mc/refs/vmap.py).
Events   : add_geometry(slot, mesh) for small 2D / 3D meshes (linear, quadratic, mixed element types, ids with gaps,
           reversed element blocks, interleaved rows, no z column, unsupported node counts), add_node_set /
           add_element_set (valid and with a foreign id), add_variable NODE / ELEMENT_NODAL with known and custom names
           in two states, and add_variable calls that cannot succeed (missing column, no location, unknown name).
           Geometry names are the two slots 'P' (planar meshes) and 'S' (solid meshes): a second add_geometry into
           an occupied slot is the duplicate-name call, a repeated add_variable is the duplicate-variable call.
Search   : breadth first over all event sequences up to the depth bound, from the empty file.  Every history is
           replayed on a fresh file.  State key = canonical dump of /VMAP/GEOMETRY and /VMAP/VARIABLES (+ names and
           shapes of /VMAP/SYSTEM) + every instance attribute of the exporter except the file name (_dimension) +
           a digest of the exporter's class-level tables.  Histories with equal key are merged (deterministic system
           => equal futures).  Levels below the depth bound are explored first (keys only, in shards()) so that each
           distinct state is expanded by exactly one shard; the shards then execute every transition out of their
           states with the complete oracle.
Invariant (every transition / every state, see _transition and _check_state):
  * a call the property promises to work (valid mesh into a free slot, set of own ids, new variable with existing
    columns) must not raise;
  * a call that raised leaves the dump of /VMAP/GEOMETRY and /VMAP/VARIABLES unchanged (empty state / geometry
    container groups that a failed add_variable leaves behind hold no variable: counted, not judged - the repository's
    own tests ask for the same, the property speaks of partial geometries and variables);
  * a call that raised but changed the full key (exporter attribute, empty container) gives a new state; every event
    out of it is executed twice, after the history with and without the failed call, and must have the same
    outcome (status, exception type, file content) - this is what catches sticky flags;
  * for every geometry: make_mesh().join_coordinates()[.join_variable()...].to_frame() == reference rows (elements by
    id, node order inside an element as handed to the exporter), same index names, columns, coordinates and values
    (exact ==, NaN == NaN); the same chain twice on one importer and once more on a second importer gives equal
    frames; geometries()/states()/node_sets()/element_sets() list what was written; filter_node_set /
    filter_element_set return exactly the member rows.
  Counted only (property silent): stored element type codes (the importer never reads them), calls outside the
  promise that are accepted, exporter attributes changed by a failed call at the last level.
"""
import hashlib
import math
import os
import shutil

import numpy as np

from mc.explore import Acc, chunked, jsonable
from mc.refs import vmap as R

ID = "C20"
LEVEL = "model_checking"
RULE = ("all sequences of exporter events from the tier's menu up to the depth bound, from an empty file; one case = one "
        "history (distinct state x event); states = globally distinct canonical states of depth < bound, each expanded "
        "exactly once (distinct_outcomes = globally distinct canonical states of any depth incl. the last level); "
        "non-trivial = history whose last call acts on a file that already holds a geometry and either succeeds (2nd "
        "geometry, set, variable: round trip of >= 2 items) or raises although the geometry it addresses exists "
        "(duplicate, unsupported mesh, foreign id, bad column/location: something could be destroyed or left behind)")
ASSUMPTIONS = [
    "the exporter is a deterministic function of (file content under /VMAP, its instance attributes, its class-level "
    "tables) - all three are part of the state key, so merging histories with equal key is sound",
    "h5py / HDF5 are part of the executed system, not modelled",
    "ids fit into int32 (VMAP stores ids as int32; one mesh uses 2**31-1)",
    "geometry and variables of one geometry are exported from the same mesh frame (the usage the property describes)",
    "a planar mesh is one whose frame has no z column or a constant z (pyLife's own convention)",
]

SCRATCH_ROOT = "/verif/build/C20"
DEPTH = {"quick": 3, "thorough": 4}
MENU = {"quick": R.MENU_QUICK, "thorough": R.MENU_THOROUGH}


def bounds(tier):
    return {"depth": DEPTH[tier], "menu_size": len(MENU[tier]), "menu": MENU[tier],
            "scenarios": SCENARIOS,
            "additional_roots": {"prefixes": ROOTS, "explored": "set/variable events only, to history length depth+1"},
            "meshes": {e[2:]: {"elements": R.MESHES[e[2:]]["elements"], "row_order": R.MESHES[e[2:]]["order"],
                               "z": R.MESHES[e[2:]]["z"]} for e in MENU[tier] if e.startswith("G:")}}


# ------------------------------------------------------------------------------------------------- scratch files
_counter = [0]


def _scratch_dir():
    d = os.path.join(SCRATCH_ROOT, str(os.getpid()))
    os.makedirs(d, exist_ok=True)
    return d


def _new_file():
    _counter[0] += 1
    return os.path.join(_scratch_dir(), "h%d.vmap" % _counter[0])


def _cleanup():
    shutil.rmtree(os.path.join(SCRATCH_ROOT, str(os.getpid())), ignore_errors=True)


# ------------------------------------------------------------------------------------------------- real calls
_frames = {}


def _frame(mid, model, state=None):
    """The ONE frame object of this mesh in the current history, value columns rewritten in place for `state`."""
    import pandas as pd
    if mid not in _frames:
        # Every frame handed to the exporter is a boolean-mask slice of a larger frame (two phantom elements, one with a
        # smaller and one with a larger id): its MultiIndex still carries the phantom ids as unused level values, as the
        # frame of a user who filtered a bigger mesh does.  Anything that reads index.levels instead of the rows sees them.
        rows = R.raw_table(R.MESHES[mid])
        eids = [r["element_id"] for r in rows]
        nids = [r["node_id"] for r in rows]
        phantom = []
        for eid, nid in ((max(eids) + 1000, max(nids) + 1000), (min(eids) - 1, min(nids) - 1)):
            if eid >= 0 and nid >= 0:
                rec = dict(rows[0])
                rec.update(element_id=eid, node_id=nid)
                phantom.append(rec)
        big = pd.DataFrame(phantom[:1] + rows + phantom[1:]).set_index(["element_id", "node_id"])
        keep = ~big.index.get_level_values("element_id").isin([p_["element_id"] for p_ in phantom])
        _frames[mid] = big[keep]
    frames = model.__dict__.setdefault("_live_frames", {})
    if mid not in frames:
        frames[mid] = _frames[mid].copy()
    df = frames[mid]
    a, b = R.STATE_AFFINE[state]
    for col in R.ALL_VALUE_COLS:
        df[col] = a * _frames[mid][col].to_numpy() + b
    return df


def _call(ex, ev, model):
    """Execute one event on the real exporter.  -> None or the exception raised."""
    import pandas as pd
    from pylife.vmap.vmap_structures import VariableLocations as VL
    try:
        if ev["kind"] == "geometry":
            ex.add_geometry(ev["slot"], _frame(ev["mesh"], model))
        elif ev["kind"] in ("node_set", "element_set"):
            fn = ex.add_node_set if ev["kind"] == "node_set" else ex.add_element_set
            fn(ev["slot"], pd.Index(model.set_ids(ev)), _frame(model.mesh_for(ev["slot"])["id"], model), model.set_name(ev))
        else:
            kw = {}
            if ev["explicit"]:
                kw["column_names"] = list(ev["columns"])
                if ev["location"] is not None:
                    kw["location"] = VL[ev["location"]]
            frame = _frame(model.mesh_for(ev["slot"])["id"], model, ev["state"])
            if ev.get("subset") == "elset":
                frame = frame[frame.index.get_level_values("element_id").isin(model.mesh_for(ev["slot"])["elset"])]
            if ev.get("bad") == "values":
                frame = frame.copy()
                col = ev["columns"][0]
                frame[col] = frame[col].astype(object)
                frame.iloc[0, frame.columns.get_loc(col)] = "n/a"
            if ev.get("rows") == "blocks-reversed":
                eids = frame.index.get_level_values("element_id").to_numpy()
                first = {}
                for i, e in enumerate(eids):
                    first.setdefault(e, i)
                frame = frame.iloc[sorted(range(len(eids)), key=lambda i: (-first[eids[i]], i))]
            ex.add_variable(ev["state"], ev["slot"], ev["name"], frame, **kw)
    except Exception as e:          # the exporter's failure is an outcome, not a crash of the check
        return e
    if ev.get("probe_default_import"):
        import pylife.vmap as vmap
        imp = None
        try:
            imp = vmap.VMAPImport(ex._file_name)
            imp.make_mesh(ev["slot"], ev["state"]).join_variable(ev["name"]).to_frame()
        except Exception:           # noqa: BLE001 - refusing the default names is fine; not judged
            pass
        finally:
            if imp is not None:
                imp._file.close()
    return None


# ------------------------------------------------------------------------------------------------- state key
def _canon(v):
    if isinstance(v, bytes):
        return v.decode("latin1")
    if isinstance(v, np.ndarray):
        if v.dtype.names:
            return [list(v.shape)] + [[_canon(rec[n]) for n in v.dtype.names] for rec in v.reshape(-1)]
        if v.dtype == object:
            return [_canon(x) for x in v.reshape(-1)]
        return [str(v.dtype), list(v.shape), v.tolist()]
    if isinstance(v, np.generic):
        return [str(v.dtype), v.item()]
    if isinstance(v, (list, tuple)):
        return [_canon(x) for x in v]
    if isinstance(v, dict):
        return {str(k): _canon(x) for k, x in sorted(v.items(), key=lambda kv: str(kv[0]))}
    return v


def _dump_group(g):
    import h5py
    out = {"@": {k: _canon(g.attrs[k]) for k in sorted(g.attrs)}}
    for name in sorted(g):
        item = g[name]
        if isinstance(item, h5py.Group):
            out[name] = _dump_group(item)
        else:
            out[name] = {"@": {k: _canon(item.attrs[k]) for k in sorted(item.attrs)}, "data": _canon(item[()])}
    return out


def _strip_empty_containers(variables):
    """/VMAP/VARIABLES without state / geometry container groups that hold no variable."""
    out = {"@": variables["@"]}
    for st, sg in variables.items():
        if st == "@":
            continue
        geos = {g: gg for g, gg in sg.items() if g != "@" and any(k != "@" for k in gg)}
        if geos:
            out[st] = dict(geos, **{"@": sg["@"]})
    return out


def _h(obj):
    return hashlib.blake2b(repr(obj).encode(), digest_size=12).hexdigest()


def _dump_file(fn):
    import h5py
    with h5py.File(fn, "r") as f:
        geo = _dump_group(f["/VMAP/GEOMETRY"])
        var = _dump_group(f["/VMAP/VARIABLES"])
        system = {n: [str(f["/VMAP/SYSTEM"][n].dtype.names), list(f["/VMAP/SYSTEM"][n].shape)] for n in sorted(f["/VMAP/SYSTEM"])}
        top = sorted(f["/VMAP"])
    return geo, var, system, top


def _class_tables(ex):
    cls = type(ex)
    return {k: _canon(v) for k, v in sorted(vars(cls).items()) if isinstance(v, dict) and k != "_metadata"}


def _keys(ex, fn):
    """-> (full key, substantive key, exporter attributes, (geo, var) dump)"""
    geo, var, system, top = _dump_file(fn)
    attrs = {k: _canon(v) for k, v in sorted(vars(ex).items()) if k != "_file_name"}
    sub = _h((geo, _strip_empty_containers(var), system, top))
    full = _h((geo, var, system, top, attrs, _class_tables(ex)))
    return full, sub, attrs, (geo, var)


# ------------------------------------------------------------------------------------------------- replay of a history
_PRISTINE_TABLES = {}


def _reset_process_tables():
    """Every history starts from the process state of a fresh interpreter: the module-level default tables of
    pylife.vmap.vmap_structures are put back to what they were when the module was imported (a history that changes them
    must show the consequence in its OWN later events - replayable - and must not leak into the histories after it)."""
    import copy
    import pylife.vmap.vmap_structures as vs
    for name in ("column_names",):
        table = getattr(vs, name, None)
        if not isinstance(table, dict):
            continue
        if name not in _PRISTINE_TABLES:
            _PRISTINE_TABLES[name] = copy.deepcopy(table)
        elif table != _PRISTINE_TABLES[name]:
            table.clear()
            table.update(copy.deepcopy(_PRISTINE_TABLES[name]))


def _replay(hist):
    """Fresh file, fresh exporter, fresh model; execute hist.  The model follows the real outcome: a call that raised
    changes nothing.  -> (ex, fn, model, list of 'ok'/'raised', unjudged flag, number of exporter calls)"""
    import pylife.vmap as vmap
    _reset_process_tables()
    fn = _new_file()
    ex = vmap.VMAPExport(fn)
    model = R.Model()
    statuses, unjudged = [], False
    for eid in hist:
        ev = R.EVENTS[eid]
        valid = model.is_valid(ev)
        exc = _call(ex, ev, model)
        statuses.append("ok" if exc is None else "raised")
        if exc is None:
            if not valid:
                unjudged = True       # a call the property does not promise anything about was accepted
            model.apply(ev)
    return ex, fn, model, statuses, unjudged, len(hist)


def _remove(fn):
    try:
        os.remove(fn)
    except FileNotFoundError:
        pass


# ------------------------------------------------------------------------------------------------- observer (import)
KNOWN_NAMES = ("DISPLACEMENT", "STRESS_CAUCHY", "E")


def _table(df):
    return {"index_names": list(df.index.names), "rows": [(int(a), int(b)) for a, b in df.index.tolist()],
            "columns": [str(c) for c in df.columns], "values": df.to_numpy(dtype=float).tolist() if len(df.columns) else
            [[] for _ in range(len(df))], "dtypes": [str(t) for t in df.dtypes]}


def _import(fn, slot, state=None, variables=(), node_set=None, element_set=None, coordinates=True, times=1, listing=False):
    """One importer object, the chain executed `times` times.  -> (list of tables, listing, None) or
    (tables of the completed runs, None, (stage, exception))."""
    import pylife.vmap as vmap
    stage = "open"
    imp = None
    out = []
    try:
        imp = vmap.VMAPImport(fn)
        for _ in range(times):
            stage = "make_mesh"
            o = imp.make_mesh(slot, state)
            if node_set is not None:
                stage = "filter_node_set"
                o = o.filter_node_set(node_set)
            if element_set is not None:
                stage = "filter_element_set"
                o = o.filter_element_set(element_set)
            if coordinates:
                stage = "join_coordinates"
                o = o.join_coordinates()
            for v in variables:
                name, cols, explicit = v[0], v[2], len(v) > 4 and v[4]
                stage = "join_variable"
                o = o.join_variable(name, column_names=None if name in KNOWN_NAMES and not explicit else list(cols))
            stage = "to_frame"
            out.append(_table(o.to_frame()))
        lst = None
        if listing == "names":
            stage = "geometries/states"
            lst = {"geometries": sorted(imp.geometries()), "states": sorted(imp.states())}
        elif listing == "sets":
            stage = "node_sets"
            lst = {"node_sets": sorted(imp.node_sets(slot))}
            stage = "element_sets"
            lst["element_sets"] = sorted(imp.element_sets(slot))
        return out, lst, None
    except Exception as e:
        return out, None, (stage, e)
    finally:
        if imp is not None:
            imp._file.close()


def _import_after_abandoned(fn, slot_a, slot_b, how):
    """One importer object: a chain on geometry A that never reaches to_frame() (how = 'make_mesh': just started;
    'failed-join': join_variable of a variable that does not exist raised), then the plain chain on geometry B.
    -> (table, None) or (None, (stage, exception))"""
    import pylife.vmap as vmap
    imp = None
    stage = "open"
    try:
        imp = vmap.VMAPImport(fn)
        stage = "abandoned-chain"
        o = imp.make_mesh(slot_a)
        if how == "failed-join":
            try:
                o.join_coordinates().join_variable("NO_SUCH_VARIABLE", column_names=["v"])
            except Exception:               # expected to raise; what it leaves behind is the point  # noqa: BLE001
                pass
        stage = "make_mesh"
        o = imp.make_mesh(slot_b)
        stage = "join_coordinates"
        o = o.join_coordinates()
        stage = "to_frame"
        return _table(o.to_frame()), None
    except Exception as e:                  # noqa: BLE001
        return None, (stage, e)
    finally:
        if imp is not None:
            imp._file.close()


def _same(a, b):
    return a == b or (isinstance(a, float) and isinstance(b, float) and math.isnan(a) and math.isnan(b))


def _col_equal(got, exp, j_got, j_exp):
    return all(_same(g[j_got], e[j_exp]) for g, e in zip(got, exp))


def _compare_mesh(tab, m, variables, slot, state=None):
    """Imported table vs reference.  -> list of (key, detail)"""
    exp_rows = R.expected_rows(m)
    ctx = {"geometry": slot, "mesh": m["id"], "rows_contiguous_by_element": R.rows_contiguous(m)}
    if tab["index_names"] != ["element_id", "node_id"]:
        return [("C20/roundtrip/index-names", dict(ctx, got=tab["index_names"]))]
    if tab["rows"] != exp_rows:
        if sorted(tab["rows"]) != sorted(exp_rows):
            cls = "rows"
        else:
            def elseq(rows):
                out = []
                for e, _ in rows:
                    if not out or out[-1] != e:
                        out.append(e)
                return out
            cls = "element-order" if elseq(tab["rows"]) != elseq(exp_rows) else "node-order"
        return [("C20/roundtrip/" + cls, dict(ctx, got=tab["rows"], expected=exp_rows))]
    cols, values = R.expected_columns(m, variables, state)
    if tab["columns"] != cols:
        return [("C20/roundtrip/columns", dict(ctx, got=tab["columns"], expected=cols))]
    out = []
    ncoord = 3 if R.has_z(m) else 2
    for j in range(ncoord):
        if not _col_equal(tab["values"], values, j, j):
            out.append(("C20/roundtrip/coordinates", dict(ctx, column=cols[j], got=[r[j] for r in tab["values"]],
                                                          expected=[r[j] for r in values])))
            break
    j = ncoord
    for name, loc, vcols in [v[:3] for v in variables]:
        for c in vcols:
            if not _col_equal(tab["values"], values, j, j):
                g, e = [r[j] for r in tab["values"]], [r[j] for r in values]
                out.append(("C20/roundtrip/variable-values/%s" % loc,
                            dict(ctx, variable=name, column=c, got=g, expected=e, rows=exp_rows,
                                 same_values_permuted=sorted(map(repr, g)) == sorted(map(repr, e)))))
                j += len(vcols) - vcols.index(c)
                break
            j += 1
    return out


def _import_error_key(stage, exc, m):
    key = "C20/import/%s-raises-%s" % (stage, type(exc).__name__)
    if not R.has_z(m):
        key += "/mesh-without-z"
    return key


def _check_state(fn, model):
    """Round trip, repeatability, set filters of every geometry in the file.  -> (violations, importer chains run,
    free counters)"""
    viol, chains, counters = [], 0, {}
    states = sorted({st for (st, _) in model.vars})
    fresh = {}
    for slot in sorted(model.geom):
        m = R.MESHES[model.geom[slot]]
        # plain mesh with coordinates, two independent importer objects
        tabs, lst, err = _import(fn, slot, listing="names")
        chains += 1
        if err:
            viol.append((_import_error_key(err[0], err[1], m), {"geometry": slot, "mesh": m["id"], "stage": err[0],
                                                                "error": "%s: %s" % (type(err[1]).__name__, err[1])}))
            continue
        viol += _compare_mesh(tabs[0], m, [], slot)
        fresh[slot] = tabs[0]
        tabs2, _, err2 = _import(fn, slot)
        chains += 1
        if err2 or not _tables_equal(tabs2[0], tabs[0]):
            viol.append(("C20/import-not-repeatable", {"geometry": slot, "mesh": m["id"], "how": "second importer object"}))
        # listings
        if lst["geometries"] != sorted(model.geom):
            viol.append(("C20/listing/geometries", {"got": lst["geometries"], "expected": sorted(model.geom)}))
        if not set(states) <= set(lst["states"]):
            viol.append(("C20/listing/states", {"got": lst["states"], "expected": states}))
        if set(lst["states"]) - set(states):
            counters["state holds an empty state group (left by a failed add_variable; property silent)"] = 1
        if model.sets.get(slot):
            exp_ns = sorted({n for k, n, _ in model.sets[slot] if k == "node_set"})
            exp_es = sorted({n for k, n, _ in model.sets[slot] if k == "element_set"})
            _, lst, err = _import(fn, slot, times=0, listing="sets")
            chains += 1
            if err:
                viol.append(("C20/set-listing/%s-raises-%s" % (err[0], type(err[1]).__name__),
                             {"geometry": slot, "mesh": m["id"], "error": "%s: %s" % (type(err[1]).__name__, err[1])}))
            elif lst["node_sets"] != exp_ns or lst["element_sets"] != exp_es:
                viol.append(("C20/set-listing", {"geometry": slot, "got": [lst["node_sets"], lst["element_sets"]],
                                                 "expected": [exp_ns, exp_es]}))
        # variables: one chain per state with every variable of the geometry, executed twice on one importer
        for st in states:
            variables = model.vars.get((st, slot), [])
            if not variables:
                continue
            tabs, _, err = _import(fn, slot, state=st, variables=variables, times=2)
            chains += 2
            if err and len(tabs) == 1:        # first run fine, the same chain fails the second time
                viol += _compare_mesh(tabs[0], m, variables, slot, st)
                viol.append(("C20/import-not-repeatable", {"geometry": slot, "mesh": m["id"], "state": st, "stage": err[0],
                                                           "how": "same importer object, second run of the chain raises",
                                                           "error": "%s: %s" % (type(err[1]).__name__, err[1])}))
                continue
            if err:
                viol.append((_import_error_key(err[0], err[1], m), {"geometry": slot, "mesh": m["id"], "state": st,
                                                                    "stage": err[0], "error": "%s: %s" % (type(err[1]).__name__, err[1])}))
                continue
            viol += _compare_mesh(tabs[0], m, variables, slot, st)
            if not _tables_equal(tabs[0], tabs[1]):
                viol.append(("C20/import-not-repeatable", {"geometry": slot, "mesh": m["id"], "state": st,
                                                           "how": "same importer object, chain executed twice"}))
        # set filters
        exp_rows = R.expected_rows(m)
        for kind, name, ids in model.sets.get(slot, []):
            kw = {"node_set": name} if kind == "node_set" else {"element_set": name}
            tabs, _, err = _import(fn, slot, coordinates=False, **kw)
            chains += 1
            if err:
                viol.append(("C20/set-filter/%s-raises-%s" % (kind, type(err[1]).__name__),
                             {"geometry": slot, "mesh": m["id"], "set": name, "error": str(err[1])}))
                continue
            pos = 1 if kind == "node_set" else 0
            members = [r for r in exp_rows if r[pos] in ids]
            if tabs[0]["rows"] != members:
                viol.append(("C20/set-filter/%s" % kind, {"geometry": slot, "mesh": m["id"], "set": name, "ids": ids,
                                                          "got": tabs[0]["rows"], "expected": members}))
                continue
            # the set filter followed by coordinates and every variable of a state: the member rows with the values
            # written for them (NaN where a variable was exported for other elements only)
            for st in states:
                variables = model.vars.get((st, slot), [])
                if not variables:
                    continue
                tabs, _, err = _import(fn, slot, state=st, variables=variables, **kw)
                chains += 1
                if err:
                    viol.append(("C20/set-filter-with-variables/%s-raises-%s" % (err[0], type(err[1]).__name__),
                                 {"geometry": slot, "mesh": m["id"], "set": name, "state": st, "error": str(err[1])[:200]}))
                    continue
                cols, values = R.expected_columns(m, variables, st)
                want = [v for r, v in zip(exp_rows, values) if r[pos] in ids]
                got = tabs[0]
                if got["rows"] != members or got["columns"] != cols or len(got["values"]) != len(want) or \
                        any(not _same(a, b) for gr, wr in zip(got["values"], want) for a, b in zip(gr, wr)):
                    viol.append(("C20/set-filter-with-variables/%s" % kind,
                                 {"geometry": slot, "mesh": m["id"], "set": name, "ids": ids, "state": st, "variables": [v[0] for v in variables],
                                  "rows": got["rows"], "columns": got["columns"], "got": got["values"], "expected": want}))
    # one importer object used for several geometries, an unfinished chain on another geometry in front
    for a in sorted(fresh):
        for b in sorted(fresh):
            if a == b:
                continue
            for how in ("make_mesh", "failed-join"):
                tab, err = _import_after_abandoned(fn, a, b, how)
                chains += 2
                if err:
                    viol.append(("C20/import-after-unfinished-chain-on-other-geometry/%s-raises-%s" % (err[0], type(err[1]).__name__),
                                 {"unfinished_on": a, "read": b, "how": how, "error": "%s: %s" % (type(err[1]).__name__, err[1])}))
                elif not _tables_equal(tab, fresh[b]):
                    viol.append(("C20/import-after-unfinished-chain-on-other-geometry",
                                 {"unfinished_on": a, "read": b, "how": how, "got_rows": tab["rows"], "fresh_importer_rows": fresh[b]["rows"]}))
    return viol, chains, counters


def _tables_equal(a, b):
    if any(a[k] != b[k] for k in ("index_names", "rows", "columns", "dtypes")):
        return False
    return all(_same(x, y) for ra, rb in zip(a["values"], b["values"]) for x, y in zip(ra, rb))


def _element_type_codes_consistent(geo_dump, model):
    """Counter only (property silent): does the stored myElementType match (dimension of that mesh, node count)?"""
    code = {(2, 3): 0, (2, 6): 1, (2, 4): 2, (2, 8): 3, (3, 4): 4, (3, 10): 5, (3, 6): 6, (3, 15): 7, (3, 8): 8, (3, 20): 9}
    ok = True
    for slot, mid in model.geom.items():
        m = R.MESHES[mid]
        try:
            recs = geo_dump[slot]["ELEMENTS"]["MYELEMENTS"]["data"][1:]
        except KeyError:
            continue
        for rec in recs:
            n_nodes, type_code = len(rec[5][2]), rec[1][1]      # _canon: [dtype, shape, values] / [dtype, value]
            if code.get((R.dimension(m), n_nodes)) != type_code:
                ok = False
    return ok


# ------------------------------------------------------------------------------------------------- one transition
def _exc_info(exc):
    return None if exc is None else "%s: %s" % (type(exc).__name__, str(exc)[:200])


def _classify_valid_raise(hist, ev, exc):
    kind = ev["kind"]
    if kind == "geometry":
        m = R.MESHES[ev["mesh"]]
        earlier_3d = any(R.EVENTS[h]["kind"] == "geometry" and R.dimension(R.MESHES[R.EVENTS[h]["mesh"]]) == 3 for h in hist)
        if R.dimension(m) == 2 and earlier_3d:
            return "C20/export-2d-geometry-after-3d"
        if R.is_mixed(m):
            return "C20/export-mixed-element-types"
        return "C20/add_geometry-raises-%s" % type(exc).__name__
    if kind == "variable":
        return "C20/add_variable-raises-%s/%s" % (type(exc).__name__, ev["location"])
    return "C20/add_%s-raises-%s" % (kind, type(exc).__name__)


def _transition(hist, eid, check_state=True, seen=None):
    """Replay hist on a fresh file, execute event eid, judge.  -> dict(viol, status, full, sub, ...)"""
    ev = R.EVENTS[eid]
    ex, fn, model, statuses, unjudged, ncalls = _replay(hist)
    res = {"viol": [], "calls": ncalls + 1, "chains": 0, "counters": {}, "unjudged": unjudged}
    try:
        full0, sub0, attrs0, _ = _keys(ex, fn)
        valid = model.is_valid(ev)
        nonempty_before = bool(model.geom)
        exc = _call(ex, ev, model)
        full1, sub1, attrs1, (geo1, var1) = _keys(ex, fn)
        res.update(status="ok" if exc is None else "raised", exc=type(exc).__name__ if exc else None, full=full1, sub=sub1,
                   full_before=full0, valid=valid)
        case = {"history": list(hist) + [eid]}
        if unjudged:
            res["counters"]["history contains an accepted call the property is silent about (not judged)"] = 1
            return res
        if exc is not None:
            if valid:
                res["viol"].append((_classify_valid_raise(hist, ev, exc), case,
                                    {"event": eid, "error": _exc_info(exc), "exporter_attrs_before": attrs0}))
            if sub1 != sub0:
                res["viol"].append(("C20/failed-call-changes-file-content/%s" % ev["kind"], case,
                                    {"event": eid, "error": _exc_info(exc), "geometry_groups": sorted(k for k in geo1 if k != "@"),
                                     "variables": jsonable(_var_names(var1))}))
            elif full1 != full0:
                if attrs1 != attrs0:
                    res["counters"]["failed call changed exporter attributes (judged through later outcomes)"] = 1
                else:
                    res["counters"]["failed add_variable left an empty state/geometry container group (property silent)"] = 1
            res["nontrivial"] = nonempty_before and ev["slot"] in model.geom
        else:
            if not valid:
                res["unjudged"] = True
                res["counters"]["accepted call the property is silent about: %s" % ev["kind"]] = 1
                return res
            model.apply(ev)
            res["nontrivial"] = nonempty_before
        if check_state and (seen is None or full1 not in seen):
            v, chains, counters = _check_state(fn, model)
            res["chains"] = chains
            res["viol"] += [(k, case, d) for k, d in v]
            res["counters"].update(counters)
            if not _element_type_codes_consistent(geo1, model):
                res["counters"]["state with a stored element type code that contradicts (dimension, node count) of its mesh "
                                "(importer does not read it; property silent)"] = 1
            if seen is not None:
                seen.add(full1)
        res["model_size"] = model.content_size()
        return res
    finally:
        _remove(fn)


def _var_names(var_dump):
    return {st: {g: sorted(k for k in gg if k != "@") for g, gg in sg.items() if g != "@"}
            for st, sg in var_dump.items() if st != "@"}


def _twin_compare(hist, twin, eid):
    """hist = twin + one call that raised but changed the full key (exporter attribute / empty container).  The later
    event eid must have the same outcome after both.  -> list of (key, case, detail), exporter calls"""
    out = []
    obs = []
    calls = 0
    for h in (hist, twin):
        ex, fn, model, _, _, n = _replay(h)
        try:
            exc = _call(ex, R.EVENTS[eid], model)
            _, sub, _, _ = _keys(ex, fn)
            obs.append(("ok" if exc is None else "raised", type(exc).__name__ if exc else None, sub, _exc_info(exc)))
            calls += n + 1
        finally:
            _remove(fn)
    if obs[0][:3] != obs[1][:3]:
        failed = hist[-1]
        out.append(("C20/failed-call-changes-later-outcome/%s" % R.EVENTS[failed]["kind"],
                    {"history": list(hist) + [eid], "twin": list(twin)},
                    {"failed_call": failed, "later_call": eid, "after_failed_call": [obs[0][0], obs[0][3]],
                     "without_failed_call": [obs[1][0], obs[1][3]], "same_file_content": obs[0][2] == obs[1][2]}))
    return out, calls


# ------------------------------------------------------------------------------------------------- frontier (keys only)
def _succ_keys(args):
    hist, menu = args
    out = []
    try:
        for eid in menu:
            ex, fn, model, statuses, unjudged, _ = _replay(list(hist) + [eid])
            try:
                full, _, _, _ = _keys(ex, fn)
            finally:
                _remove(fn)
            out.append((eid, statuses[-1], full, unjudged))
    finally:
        _cleanup()
    return out


_frontier_cache = {}
ROOTS = [["G:tri3", "G:tet4"]]


def _frontier(tier):
    """Level-synchronous BFS (keys only) over depths 0 .. D-1.  -> list of state descriptors
    {hist, twin, depth, key}; each distinct canonical state once, representative = first history in BFS order."""
    if tier in _frontier_cache:
        return _frontier_cache[tier]
    import multiprocessing as mp
    menu, depth = MENU[tier], DEPTH[tier]
    ex, fn, _, _, _, _ = _replay([])
    root_key = _keys(ex, fn)[0]
    _remove(fn)
    _cleanup()
    states = [{"hist": [], "twin": None, "depth": 0, "key": root_key}]
    known = {root_key}
    level = list(states)
    replays = 0
    nproc = int(os.environ.get("VERIF_PROCS", min(16, os.cpu_count() or 1)))
    for d in range(1, depth):
        tasks = [(s["hist"], menu) for s in level]
        if nproc > 1 and len(tasks) > 1:
            with mp.get_context("fork").Pool(min(nproc, len(tasks))) as pool:
                results = pool.map(_succ_keys, tasks, chunksize=1)
        else:
            results = [_succ_keys(t) for t in tasks]
        nxt = []
        for s, succ in zip(level, results):
            for eid, status, full, unjudged in succ:
                replays += 1
                if unjudged or full in known:
                    continue
                known.add(full)
                nxt.append({"hist": s["hist"] + [eid], "twin": s["hist"] if status == "raised" else None, "depth": d, "key": full})
        states += nxt
        level = nxt
    # Additional roots ("start from non-initial states too"): a file that already holds a planar and a solid geometry.
    # From there only set / variable events are explored, one level deeper than the main search reaches, so that
    # histories like [geometry A, geometry B, variable of A, failing variable of B] are covered already in the quick tier.
    nongeo = [e for e in menu if not e.startswith("G:")]
    for prefix in ROOTS:
        lvl = [list(prefix)]
        for d in range(len(prefix) + 1, depth + 1):
            tasks = [(h, nongeo) for h in lvl]
            if nproc > 1 and len(tasks) > 1:
                with mp.get_context("fork").Pool(min(nproc, len(tasks))) as pool:
                    results = pool.map(_succ_keys, tasks, chunksize=1)
            else:
                results = [_succ_keys(t) for t in tasks]
            nxt, seen_lvl = [], set()
            for h, succ in zip(lvl, results):
                for eid, status, full, unjudged in succ:
                    replays += 1
                    if unjudged or full in seen_lvl:
                        continue
                    seen_lvl.add(full)
                    nxt.append(h + [eid])
                    if full not in known:
                        known.add(full)
                        states.append({"hist": h + [eid], "twin": h if status == "raised" else None, "depth": d, "key": full, "nongeo": True})
            lvl = nxt
    _frontier_cache[tier] = (states, replays)
    return states, replays


SCENARIOS = [["G:strip40", "NS:P", "ES:P", "V:P:s1:DISPLACEMENT", "V:P:s1:STRESS_CAUCHY", "V:P:s2:EN"],
             ["G:strip40", "ES:P", "ES2:P", "V:P:s1:ENSUB", "V:P:s2:DISP2D", "V:P:s1:DISPLACEMENT"]]


def shards(tier):
    states, replays = _frontier(tier)
    size = max(1, len(states) // 160)
    out = [{"tier": tier, "scenario": sc} for sc in SCENARIOS]
    first = True
    for block in chunked(states, size):
        out.append({"tier": tier, "states": block, "frontier_replays": replays if first else 0})
        first = False
    return out


# ------------------------------------------------------------------------------------------------- shard
def run_scenario(hist, acc):
    """one fixed, longer history on a larger mesh: every prefix is a transition judged like any other"""
    try:
        for k in range(len(hist)):
            r = _transition(hist[:k], hist[k])
            acc.cases += 1
            acc.transitions += 1
            acc.states += 1
            acc.evaluations += r["calls"] + r["chains"]
            acc.max_depth = max(acc.max_depth, k + 1)
            if r.get("nontrivial"):
                acc.nontrivial += 1
            if "full" in r:
                acc.outcomes.add(r["full"])
            for key, case, detail in r["viol"]:
                acc.violation(key, case, detail)
    finally:
        _cleanup()


def run_shard(shard):
    acc = Acc()
    if "scenario" in shard:
        run_scenario(shard["scenario"], acc)
        return acc
    menu = MENU[shard["tier"]]
    acc.evaluations += shard["frontier_replays"]
    acc.count("frontier replays (keys only, in shards())", shard["frontier_replays"])
    seen = set()
    try:
        for s in shard["states"]:
            acc.states += 1
            acc.outcomes.add(s["key"])
            seen.add(s["key"])          # s itself was judged by the shard that expanded its predecessor
            if s["twin"] is not None:
                acc.count("states reached by a failed call that changed the full key (expanded with twin comparison)")
            for eid in ([e for e in menu if not e.startswith("G:")] if s.get("nongeo") else menu):
                r = _transition(s["hist"], eid, seen=seen)
                acc.cases += 1
                acc.transitions += 1
                acc.evaluations += r["calls"] + r["chains"]
                acc.max_depth = max(acc.max_depth, len(s["hist"]) + 1)
                if r.get("nontrivial"):
                    acc.nontrivial += 1
                if "full" in r:
                    acc.outcomes.add(r["full"])
                    acc.count("calls that raised" if r["status"] == "raised" else "calls that succeeded")
                for k, n in r["counters"].items():
                    acc.count(k, n)
                for key, case, detail in r["viol"]:
                    acc.violation(key, case, detail)
                if s["twin"] is not None and not r["unjudged"]:
                    v, calls = _twin_compare(s["hist"], s["twin"], eid)
                    acc.evaluations += calls
                    acc.count("twin comparisons (later call with / without the failed call)")
                    for key, case, detail in v:
                        acc.violation(key, case, detail)
                if (len(acc.samples) < 1 and r.get("status") == "ok" and r.get("model_size", (0, 0, 0))[2] >= 1
                        and len(s["hist"]) >= 2):
                    acc.sample({"history": s["hist"] + [eid], "final model (geometries, sets, variables)": r["model_size"]})
    finally:
        _cleanup()
    return acc


def replay(case):
    hist = list(case["history"])
    try:
        out = []
        if "twin" in case:
            v, _ = _twin_compare(hist[:-1], list(case["twin"]), hist[-1])
            out += [(k, d) for k, _, d in v]
        r = _transition(hist[:-1], hist[-1])
        out += [(k, d) for k, _, d in r["viol"]]
        return out
    finally:
        _cleanup()
