"""C11 - Miner damage is linear in the collective and agrees with the predicted Gassner lifetime.

Every cycle vector over a small count alphabet (so every pattern of empty classes at the top, at the bottom
and in between) on regular and irregular class limits, as LoadHistogram and as LoadCollective, scaled to load
levels below / across / above the knee, against every curve of a small lattice.  All oracles are the clauses of the
property itself (metamorphic / differential between pyLife's two code paths); there is no numeric reference model.
"""
import itertools
import math
import warnings

import numpy as np

from mc.explore import Acc

ID = "C11"
LEVEL = "exploration"
RULE = ("curves (k_1, SD; k_2 entry given or not for the Gassner accessors) x class limits x ALL cycle vectors over "
        "the count alphabet except 0 x representation x load level; one case = one collective on one curve.  "
        "non-trivial = collective with >= 1 empty class, >= 2 occupied classes and its largest occupied amplitude >= SD")
ASSUMPTIONS = [
    "the damage of a collective is the sum of the Series returned by Fatigue.damage (per member n_i / N(S_i))",
    "'under the corresponding rule': damage is evaluated on curve.fatigue.miner_elementary() resp. miner_haibach() "
    "of the same k_1/ND/SD; the Gassner accessors are created on the curve both without a k_2 entry and with the "
    "k_2 the rule prescribes",
    "sums of <= 5 members: rtol 1e-12 for additivity / proportionality / order, 1e-9 for 'damage exactly one' "
    "(two independently rounded power expressions)",
]

RULES = ("miner_original", "miner_haibach", "miner_elementary")
ALL_EDGES = {"regular": (0.0, 100.0, 200.0, 300.0, 400.0), "irregular": (0.0, 30.0, 100.0, 130.0, 400.0),
             "regular5": (0.0, 80.0, 160.0, 240.0, 320.0, 400.0)}
RT_LIN = 1e-12
RT_ONE = 1e-9


def _plan(tier):
    """curves are (k_1, SD); SD = 125 / 132.5 / 100 / 60 put the knee exactly on a class amplitude at level 1; level 100
    ("scaled to any load level") puts the upper classes where the finite-life line gives N(S) < 1 cycle"""
    if tier == "quick":
        return [dict(curves=((5.0, 100.0), (3.0, 125.0), (5.0, 100.0, 0.1, 4.0, 1.25)), edges=("regular", "irregular"), counts=(0.0, 1.0, 5000.0),
                     forms=("histogram", "collective"), levels=(0.5, 1.0, 3.0, 100.0), perms="rotations+reverse",
                     linear_on_first_curves=1)]
    return [dict(curves=((5.0, 100.0), (3.0, 125.0), (8.0, 132.5), (3.0, 80.0), (5.0, 125.0), (8.0, 100.0),
                         (5.0, 100.0, 0.1, 4.0, 1.25), (3.0, 125.0, 0.9, 3.0, 1.1), (5.0, 100.0, 0.025, 1.0, 1.25)),
                 edges=("regular", "irregular"), counts=(0.0, 1.0, 5000.0),
                 forms=("histogram", "collective", "histogram-with-mean"), levels=(0.5, 1.0, 1.6, 3.0, 100.0), perms="all",
                 linear_on_first_curves=2),
            dict(curves=((5.0, 100.0), (3.0, 60.0)), edges=("regular5",), counts=(0.0, 1.0, 50.0),
                 forms=("histogram", "collective"), levels=(0.5, 1.0, 1.6, 3.0), perms="rotations+reverse",
                 linear_on_first_curves=1)]


def bounds(tier):
    out = []
    for p in _plan(tier):
        p = dict(p)
        p["ND"] = 1e6
        p["k_2 entry of the curve given to the Gassner accessors"] = ["absent", "as the rule says"]
        p["class_limits(range)"] = {k: ALL_EDGES[k] for k in p["edges"]}
        nlin = p.pop("linear_on_first_curves")
        p["curves(k_1, SD)"] = p.pop("curves")
        p["linearity clauses (additive / proportional / member order)"] = "on all curves" if nlin >= 99 else \
            "on the first %d curve(s); rule order, Gassner and effective damage sum clauses on all" % nlin
        p["splits"] = "all unordered splits of the members into two parts; counts split 1/4 + 3/4; counts x 3"
        out.append(p)
    return out


def shards(tier):
    out = []
    for p in _plan(tier):
        for e in p["edges"]:
            ncls = len(ALL_EDGES[e]) - 1
            vecs = [v for v in itertools.product(p["counts"], repeat=ncls) if any(v)]
            vecs.sort(key=lambda v: (sum(1 for x in v if x), v))          # simplest first
            for form in p["forms"]:
                for ci, curve in enumerate(p["curves"]):
                    linear = ci < p["linear_on_first_curves"]
                    for level in p["levels"]:
                        for i in range(0, len(vecs), 40 if linear else 512):
                            out.append({"edges": e, "form": form, "curve": curve, "level": level, "perms": p["perms"],
                                        "linear": linear, "vectors": vecs[i:i + (40 if linear else 512)]})
    return out


# ---------------------------------------------------------------------------------------------------------------
def _amps(edges):
    return [0.5 * 0.5 * (a + b) for a, b in zip(edges[:-1], edges[1:])]


def build(form, edges, counts, level, order=None, keep=None):
    """-> object behaving like a load collective (accessor); members in the given order, restricted to `keep`"""
    import pandas as pd
    import pylife.stress.collective  # noqa: F401
    n = len(counts)
    order = list(order) if order is not None else list(range(n))
    if keep is not None:
        order = [i for i in order if i in keep]
    m = len(order)
    if form in ("histogram", "histogram-with-mean"):
        rng = pd.IntervalIndex.from_arrays([edges[i] for i in order], [edges[i + 1] for i in order], name="range")
        if form == "histogram":
            idx = rng
        else:
            mean = pd.IntervalIndex.from_arrays([-10.0] * m, [10.0] * m, name="mean")
            idx = pd.MultiIndex.from_arrays([rng, mean], names=["range", "mean"])
        lc = pd.Series([float(counts[i]) for i in order], index=idx, name="cycles").load_collective
    else:
        amp = _amps(edges)
        df = pd.DataFrame({"from": [-amp[i] for i in order], "to": [amp[i] for i in order],
                           "cycles": [float(counts[i]) for i in order]})
        if form == "collective-with-idle-member":
            # one more member in front: cycles with from == to (amplitude exactly 0), half as many as all others together
            idle = pd.DataFrame({"from": [7.0], "to": [7.0], "cycles": [0.5 * float(sum(counts))]})
            df = pd.concat([idle, df], ignore_index=True)
        lc = df.load_collective
    if level != 1.0:
        lc = lc.scale(level)
    return lc


def curve_series(curve, k2=None):
    import pandas as pd
    d = {"k_1": curve[0], "ND": 1e6, "SD": curve[1]}
    if len(curve) > 2:          # (k_1, SD, failure_probability, TN, TS): a design curve given for P != 50 % with scatter
        d.update({"failure_probability": curve[2], "TN": curve[3], "TS": curve[4]})
    if k2 is not None:
        d["k_2"] = k2
    return pd.Series(d)


def damage(curve, rule, lc):
    """per-member damages (list, in member order) under the rule"""
    import pylife.strength.fatigue  # noqa: F401
    wc = getattr(curve_series(curve).fatigue, rule)()
    d = wc.damage(lc)
    return [float(x) for x in np.asarray(d, dtype=float)]


def _close(a, b, rt):
    if math.isnan(a) or math.isnan(b):
        return False
    if math.isinf(a) or math.isinf(b):
        return a == b
    return abs(a - b) <= rt * max(abs(a), abs(b))


def _perms(n, mode):
    ident = tuple(range(n))
    if mode == "all":
        return [p for p in itertools.permutations(range(n)) if p != ident]
    return [ident[i:] + ident[:i] for i in range(1, n)] + [ident[::-1]]


def _gkey(name, k2name, below, top_empty):
    """input class of a failing Gassner case: collective entirely below the knee / highest class empty / other"""
    if below:
        return "C11/gassner-%s/below-SD/%s" % (name, k2name)
    if top_empty:
        return "C11/gassner-%s/top-class-empty" % name
    return "C11/gassner-%s/%s" % (name, k2name)


def check_case(case):
    """case: {edges, form, curve, counts, level, perms} -> (violations, evaluations, nontrivial, outcome)"""
    import pylife.strength.miner as miner  # noqa: F401
    edges = ALL_EDGES[case["edges"]]
    form, curve, counts, level = case["form"], tuple(case["curve"]), [float(c) for c in case["counts"]], float(case["level"])
    n = len(counts)
    k1, sd = curve[:2]
    amps = [a * level for a in _amps(edges)]
    occ = [i for i in range(n) if counts[i] > 0]
    top_empty = counts[int(np.argmax(amps))] == 0
    max_occ = max(amps[i] for i in occ)
    viol, ev = [], 0
    tot, gass = {}, {}

    def V(key, **detail):
        viol.append((key, detail))

    with warnings.catch_warnings():
        warnings.simplefilter("ignore")
        try:
            full = {}
            lc = build(form, edges, counts, level)
            for rule in RULES:
                full[rule] = damage(curve, rule, lc)
                ev += 1
                if len(full[rule]) != n or any(math.isnan(x) or x < 0 for x in full[rule]):
                    V("C11/damage-not-a-number/%s" % rule, damage=full[rule])
            tot = {r: math.fsum(full[r]) for r in RULES}

            # ONE kept Fatigue object: its own damage, the three Miner variants derived from it, its own damage again
            kept = curve_series(curve).fatigue
            own_before = [float(x) for x in np.asarray(kept.damage(lc), dtype=float)]
            for rule in RULES:
                getattr(kept, rule)()
            own_after = [float(x) for x in np.asarray(kept.damage(lc), dtype=float)]
            ev += 2
            if own_before != own_after and not all(math.isnan(a) and math.isnan(b) or a == b for a, b in zip(own_before, own_after)):
                V("C11/kept-fatigue-object/own-damage-changes-after-deriving-the-miner-variants", before=own_before, after=own_after)

            # ordered original <= Haibach <= elementary (member-wise and in total)
            for lo, hi in (("miner_original", "miner_haibach"), ("miner_haibach", "miner_elementary")):
                if any(a > b * (1 + RT_LIN) for a, b in zip(full[lo], full[hi])) or tot[lo] > tot[hi] * (1 + RT_LIN):
                    V("C11/rule-order/%s-above-%s" % (lo, hi), lower=full[lo], upper=full[hi])

            for rule in (RULES if case.get("linear", True) else ()):
                # additive over members: every unordered split of the members into two parts
                for mask in range(1, 2 ** n - 1, 2):
                    part = [[i for i in range(n) if (mask >> i) & 1], [i for i in range(n) if not (mask >> i) & 1]]
                    got = [None] * n
                    for idxs in part:
                        d = damage(curve, rule, build(form, edges, counts, level, keep=set(idxs)))
                        ev += 1
                        for i, x in zip(idxs, d):
                            got[i] = x
                    if any(not _close(a, b, RT_LIN) for a, b in zip(got, full[rule])) or not _close(math.fsum(got), tot[rule], RT_LIN):
                        V("C11/additive/%s/%s" % (rule, form), split=part, parts=got, whole=full[rule])
                        break
                # additive over the cycle counts of a member (n = n' + n'') and proportional to a common factor
                da = damage(curve, rule, build(form, edges, [0.25 * c for c in counts], level))
                db = damage(curve, rule, build(form, edges, [0.75 * c for c in counts], level))
                d3 = damage(curve, rule, build(form, edges, [3.0 * c for c in counts], level))
                ev += 3
                if any(not _close(x + y, z, RT_LIN) for x, y, z in zip(da, db, full[rule])):
                    V("C11/additive-counts/%s/%s" % (rule, form), quarter=da, three_quarters=db, whole=full[rule])
                if any(not _close(x, 3.0 * z, RT_LIN) for x, z in zip(d3, full[rule])):
                    V("C11/proportional/%s/%s" % (rule, form), tripled=d3, whole=full[rule])
                # independent of member order
                for perm in _perms(n, case["perms"]):
                    dp = damage(curve, rule, build(form, edges, counts, level, order=perm))
                    ev += 1
                    back = [None] * n
                    for pos, i in enumerate(perm):
                        back[i] = dp[pos]
                    if any(not _close(x, z, RT_LIN) for x, z in zip(back, full[rule])) or not _close(math.fsum(dp), tot[rule], RT_LIN):
                        V("C11/member-order/%s/%s" % (rule, form), order=list(perm), permuted=dp, whole=full[rule])
                        break

            # Gassner cycles -> damage one under the corresponding rule; effective damage sum in [0.3, 1]
            below = max_occ < sd
            for acc, rule, k2rule in (("gassner_miner_elementary", "miner_elementary", k1),
                                      ("gassner_miner_haibach", "miner_haibach", 2 * k1 - 1)):
                name = rule.replace("miner_", "")
                # the curve may carry a k_2 entry of its own: none, the rule's own slope, or a *foreign* one (22, or k_1 as left
                # behind by miner_elementary().to_pandas()) - the rule named by the accessor decides, not the entry
                for k2, k2name in ((None, "curve-without-k_2"), (k2rule, "curve-with-k_2"),
                                   (22.0, "curve-with-foreign-k_2"), (k1 if name == "haibach" else 2 * k1 - 1, "curve-with-foreign-k_2")):
                    m = getattr(curve_series(curve, k2), acc)
                    N = float(np.asarray(m.gassner_cycles(lc)))
                    ev += 1
                    gass[rule + "/" + k2name] = N
                    if not math.isfinite(N) or N <= 0:
                        V(_gkey(name, k2name, below, top_empty), gassner_cycles=N, damage_sum=None)
                    else:
                        total = sum(counts)
                        scaled = [c * (N / total) for c in counts]
                        dsum = math.fsum(damage(curve, rule, build(form, edges, scaled, level)))
                        ev += 1
                        if not _close(dsum, 1.0, RT_ONE):
                            V(_gkey(name, k2name, below, top_empty), gassner_cycles=N, damage_sum=dsum)
                        elif k2 is None:
                            # the members listed in another order are the same collective: same Gassner cycles
                            for perm in (tuple(reversed(range(n))), tuple(range(1, n)) + (0,)):
                                Np = float(np.asarray(getattr(curve_series(curve, k2), acc).gassner_cycles(build(form, edges, counts, level, order=perm))))
                                ev += 1
                                if not _close(Np, N, RT_ONE):
                                    V("C11/gassner-%s/member-order" % name, order=list(perm), gassner_cycles_listed_ascending=N, gassner_cycles_permuted=Np)
                                    break
                            # ... and with an additional member of amplitude exactly zero (cycles with from == to): it adds
                            # cycles but no damage; after the predicted number of cycles the damage sum is one again
                            if form == "collective":
                                f0 = "collective-with-idle-member"
                                N0 = float(np.asarray(getattr(curve_series(curve, k2), acc).gassner_cycles(build(f0, edges, counts, level))))
                                total0 = 1.5 * sum(counts)
                                d0 = damage(curve, rule, build(f0, edges, [c * (N0 / total0) for c in counts], level))
                                ev += 2
                                if not (math.isfinite(N0) and _close(math.fsum(d0), 1.0, RT_ONE)):
                                    V("C11/gassner-%s/member-of-amplitude-zero" % name, gassner_cycles=N0, damage_sum=math.fsum(d0),
                                      gassner_cycles_without_the_idle_member=N)
                    # the same accessor object used again on another collective with the same cycle counts but other
                    # (not proportional) class limits must answer like a fresh one: nothing may stick to the object
                    other = "irregular" if case["edges"] != "irregular" else "regular"
                    if len(ALL_EDGES[other]) == len(edges) and form != "histogram-with-mean":
                        lc2 = build(form, ALL_EDGES[other], counts, level)
                        if name == "elementary":
                            m.gassner(lc)                  # the Gassner-shifted curve is asked for in between (same object)
                            ev += 1
                        kept = float(np.asarray(m.gassner_cycles(lc2)))
                        fresh = float(np.asarray(getattr(curve_series(curve, k2), acc).gassner_cycles(lc2)))
                        ev += 2
                        if not (kept == fresh or (math.isnan(kept) and math.isnan(fresh))):
                            V("C11/gassner-%s/kept-accessor-object-answers-differently" % name, first_collective_edges=case["edges"],
                              second_collective_edges=other, kept_object=kept, fresh_object=fresh)
                    dm = float(np.asarray(m.effective_damage_sum(lc)))
                    ev += 1
                    if not (0.3 <= dm <= 1.0):
                        V("C11/effective-damage-sum/%s" % name, value=dm)
                    gass[rule + "/" + k2name + "/D_m"] = dm
        except Exception as e:            # pyLife raising where the property expects a value
            V("C11/raises-%s/%s" % (type(e).__name__, form), error=str(e)[:300])
            return viol, ev, False, ("raises", type(e).__name__)
    nontrivial = len(occ) < n and len(occ) >= 2 and max_occ >= sd
    outcome = tuple(float("%.9g" % tot[r]) for r in RULES) + tuple(float("%.9g" % v) if math.isfinite(v) else repr(v) for v in gass.values())
    seen, uniq = set(), []
    for k, d in viol:
        if k not in seen:
            seen.add(k)
            uniq.append((k, d))
    return uniq, ev, nontrivial, outcome


def run_shard(shard):
    acc = Acc()
    for vec in shard["vectors"]:
        case = {"edges": shard["edges"], "form": shard["form"], "curve": list(shard["curve"]), "counts": list(vec),
                "level": shard["level"], "perms": shard["perms"], "linear": shard["linear"]}
        acc.cases += 1
        viol, ev, nontrivial, outcome = check_case(case)
        acc.evaluations += ev
        if nontrivial:
            acc.nontrivial += 1
            if not acc.samples and sum(1 for c in vec if c) >= 3:
                acc.sample({"case": case, "damage(original,haibach,elementary), gassner cycles and D_m": outcome})
        acc.count("collectives_with_empty_top_class" if vec[-1] == 0 else "collectives_with_occupied_top_class")
        acc.outcome(outcome)
        for key, detail in viol:
            acc.violation(key, case, detail)
    return acc


def replay(case):
    return check_case(case)[0]
