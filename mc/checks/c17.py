"""C17 - equivalent stresses are rotation invariant, scale, match the principal stresses.

Every symmetric tensor with components from a small integer alphabet is expressed in every proper rotation of the
cube (exact in Voigt components) and in a few rational rotations, scaled by every factor of a menu, and handed to the
real equistress functions as columns, as scalars and through ``df.equistress``.  Expected values come from the
reference eigenvalues (cyclic Jacobi, mc/refs/eig3.py) of the *unrotated, unscaled* tensor, multiplied by the scale:
one comparison therefore covers the definition, the rotation invariance and the scaling clause.
"""
import itertools
import warnings

import numpy as np

from mc.explore import Acc
from mc.refs import eig3

ID = "C17"
LEVEL = "exploration"
RULE = ("all symmetric tensors with the 6 components in the integer alphabet x all listed rotations x all listed scales; "
        "one case = (tensor, rotation, scale); one evaluation = one equistress function applied to one tensor (a column "
        "call on N rows counts N; scalar and accessor calls are counted the same way; numbers of calls are in the "
        "counters); non-trivial = tensor is not zero and the rotated+scaled component vector differs from the original "
        "one; class counters (hydrostatic, uniaxial, pure shear, repeated eigenvalues, zero indicators) are per tensor")
ASSUMPTIONS = [
    "reference eigenvalues: cyclic Jacobi in mc/refs/eig3.py, cross-checked per tensor against numpy.linalg.eigvalsh of "
    "the tensor assembled by the check (<= 1e-12*||s||) and the integer characteristic polynomial (|p(l)| <= 1e-9)",
    "signed permutation rotations and the scales 0.5, 2, 1000 act exactly on integer Voigt components; there Mises and "
    "the trace-signed variants are compared with ==; everything that passes an eigen-solve, a rational rotation or an "
    "inexact scale is compared with the absolute tolerance 1e-9*scale*||s||_F (eigvalsh is backward stable to ~1e-15*||s||)",
    "Mises near zero: sqrt amplifies the rounding of its radicand, so a value also passes if |m^2 - ref^2| <= 1e-13*(scale*||s||)^2; "
    "NaN never passes",
    "the sign of the abs-max-principal indicator l_max + l_min is not judged where it vanishes in exact arithmetic "
    "(|l_max + l_min| <= 1e-9*||s||) unless the tensor is diagonal in an exact configuration (eigenvalues exact, +1 expected); "
    "the sign of the trace is not judged where the exact trace is zero and the configuration is inexact; both are counted",
    "the lattice is finite: values off the lattice are not covered",
]

A5 = (-2, -1, 0, 1, 2)
A7 = (-3, -2, -1, 0, 1, 2, 3)
SCALAR_FUNCS = ("mises", "tresca", "max_principal", "min_principal", "abs_max_principal", "signed_mises_trace",
                "signed_mises_abs_max_principal", "signed_tresca_trace", "signed_tresca_abs_max_principal")
FAMILY = {"mises": "mises", "signed_mises_trace": "mises", "signed_mises_abs_max_principal": "mises",
          "tresca": "tresca", "signed_tresca_trace": "tresca", "signed_tresca_abs_max_principal": "tresca",
          "max_principal": "principals", "min_principal": "principals", "abs_max_principal": "principals",
          "principals": "principals"}
EXACT_SCALES = (0.5, 1.0, 2.0, 1000.0, 2.0 ** -40, 2.0 ** 40)      # integer components stay exact, sums of three stay exact
DYADIC = (0.5, 1.0, 2.0, 2.0 ** -40, 2.0 ** 40)                    # additionally c*sqrt(x) == sqrt(c*c*x) bitwise
RTOL = 1e-9


def _rotations(tier):
    """ordered dict name -> (matrix, exact?)"""
    rots = {}
    for i, r in enumerate(eig3.cube_rotations()):
        rots["cube%02d" % i] = (r, True)
    for ax, name in enumerate("xyz"):
        rots[name + "345"] = (eig3.axis_rotation(ax, 0.6, 0.8), False)
    if tier == "thorough":
        for ax, name in enumerate("xyz"):
            rots[name + "51213"] = (eig3.axis_rotation(ax, 5.0 / 13.0, 12.0 / 13.0), False)
        rots["z345*x51213"] = (eig3.axis_rotation(2, 0.6, 0.8) @ eig3.axis_rotation(0, 5.0 / 13.0, 12.0 / 13.0), False)
        rots["x345*y345*z51213"] = (eig3.axis_rotation(0, 0.6, 0.8) @ eig3.axis_rotation(1, 0.6, 0.8)
                                    @ eig3.axis_rotation(2, 5.0 / 13.0, 12.0 / 13.0), False)
    return rots


ALL_ROTATIONS = None


def _rot(name):
    global ALL_ROTATIONS
    if ALL_ROTATIONS is None:
        ALL_ROTATIONS = _rotations("thorough")
    return ALL_ROTATIONS[name]


def _scales(tier):
    if tier == "quick":
        return (1.0, 0.5, 2.0, 1000.0, 0.7, 2.0 ** -40)      # 2**-40: "any positive factor" includes ones that push everything below 1e-8
    return (1.0, 0.5, 2.0, 1000.0, 0.7, 1.0 / 3.0, 1e-6, 3.3e5, 2.0 ** -40, 2.0 ** 40, 1e-11)


def _plan(tier):
    """[(alphabet, scalar_calls_for: 'base' | 'cube')]"""
    if tier == "quick":
        return [(A5, "base")]
    return [(A5, "cube"), (A7, "base")]


def bounds(tier):
    return {"lattices": [{"component_alphabet": a, "tensors": len(a) ** 6, "scalar_calls": s} for a, s in _plan(tier)],
            "rotations": list(_rotations(tier)), "scales": _scales(tier),
            "call_histories": {"depth": HIST_DEPTH[tier], "operations": ["%s.%s" % o for o in HIST_OPS], "tensors": HIST_TENSORS.tolist()},
            "call_styles": ["column", "scalar (python floats)", "df.equistress accessor (shuffled columns, non-default index)"]}


def shards(tier):
    out = []
    for alpha, scalar_for in _plan(tier):
        order = sorted(alpha, key=lambda x: (abs(x), x))          # simplest first: zero tensor in the first shard
        for s11, s22 in itertools.product(order, repeat=2):
            out.append((tier, alpha, s11, s22, scalar_for))
    nops = range(len(HIST_OPS))
    out.append(("history", 1, ()))
    out += [("history", HIST_DEPTH[tier], (i, j)) for i in nops for j in nops]
    return out


# ---------------------------------------------------------------------------------------------------------------------
def _call_columns(v):
    import pylife.stress.equistress as EQ
    cols = [np.ascontiguousarray(v[:, i]) for i in range(6)]
    res = {f: np.asarray(getattr(EQ, f)(*cols), dtype=float) for f in SCALAR_FUNCS}
    res["principals"] = np.asarray(EQ.principals(*cols), dtype=float)
    return res


def _call_scalars(v):
    import pylife.stress.equistress as EQ
    res = {f: np.empty(len(v)) for f in SCALAR_FUNCS}
    res["principals"] = np.empty((len(v), 3))
    for i, row in enumerate(v):
        args = [float(x) for x in row]
        for f in SCALAR_FUNCS:
            res[f][i] = float(getattr(EQ, f)(*args))
        res["principals"][i] = np.asarray(EQ.principals(*args), dtype=float).reshape(3)
    return res


ACC_COLUMNS = ["S23", "S11", "S13", "S22", "S12", "S33"]
VOIGT_POS = {"S11": 0, "S22": 1, "S33": 2, "S12": 3, "S13": 4, "S23": 5}


def _call_accessor(v):
    """Returns (results dict, list of structural complaints)."""
    import pandas as pd
    import pylife.stress.equistress  # noqa: F401  (registers the accessor)
    n = len(v)
    index = pd.Index([3 * (n - i) + 7 for i in range(n)], name="element_id")
    df = pd.DataFrame({c: v[:, VOIGT_POS[c]] for c in ACC_COLUMNS}, index=index)
    res, complaints = {}, []
    for f in SCALAR_FUNCS:
        s = getattr(df.equistress, f)()
        if not isinstance(s, pd.Series) or list(s.index) != list(index) or s.index.names != index.names:
            complaints.append((f, "result is not a Series on the frame's index"))
            res[f] = np.full(n, np.nan)
            continue
        res[f] = s.to_numpy(dtype=float)
    p = df.equistress.principals()
    if list(p.index) != list(index) or list(p.columns) != ["min_principal", "med_principal", "max_principal"]:
        complaints.append(("principals", "result is not a frame (min, med, max) on the frame's index"))
        res["principals"] = np.full((n, 3), np.nan)
    else:
        res["principals"] = p.to_numpy(dtype=float)
    return res, complaints


def _same(a, b):
    """bitwise-equal values, NaN == NaN, -0.0 == 0.0"""
    return (a == b) | (np.isnan(a) & np.isnan(b))


class Ref:
    """Reference quantities of a block of base tensors (N,6 integer valued floats)."""

    def __init__(self, t):
        self.t = t
        with np.errstate(all="ignore"):
            self.lam = eig3.jacobi_eigenvalues(t)
        self.norm = eig3.frobenius(t)
        self.defs = eig3.definitions(self.lam)
        self.trace = t[:, 0] + t[:, 1] + t[:, 2]                     # exact (integers)
        self.diagonal = (t[:, 3] == 0) & (t[:, 4] == 0) & (t[:, 5] == 0)
        lapack = np.linalg.eigvalsh(eig3.assemble(t))
        self.self_check = (np.max(np.abs(lapack - self.lam), axis=1) <= 1e-12 * np.maximum(self.norm, 1.0)) & \
                          (eig3.charpoly_residual(t, self.lam) <= 1e-9)


def judge(ref, res, scale, exact_rot, base_mises=None):
    """Compare one set of results (dict f -> array over the block) with the property.

    Returns (list of (function, clause, mask of offending rows, expected array or None), counters dict).
    """
    n = len(ref.t)
    c = scale
    exact_sign = exact_rot and c in EXACT_SCALES
    exact_mises = exact_rot and c in DYADIC
    tol = RTOL * c * ref.norm
    out, cnt = [], {}
    nan = {f: np.isnan(res[f]) if f != "principals" else np.isnan(res[f]).any(axis=1) for f in res}
    d = ref.defs

    def add(f, clause, mask, expected=None):
        mask = mask & ~nan[f]
        if mask.any():
            out.append((f, clause, mask, expected))

    for fam in ("mises", "tresca", "principals"):
        m = np.zeros(n, dtype=bool)
        for f in res:
            if FAMILY[f] == fam:
                m |= nan[f]
        if m.any():
            out.append((fam, "nan", m, None))

    # --- definitions in terms of the eigenvalues (rotation invariance and scaling ride on the same comparison)
    exp_p = c * ref.lam
    add("principals", "value", np.max(np.abs(res["principals"] - exp_p), axis=1) > tol, exp_p)
    add("max_principal", "value", np.abs(res["max_principal"] - c * d["max_principal"]) > tol, c * d["max_principal"])
    add("min_principal", "value", np.abs(res["min_principal"] - c * d["min_principal"]) > tol, c * d["min_principal"])
    add("tresca", "value", np.abs(res["tresca"] - c * d["tresca"]) > tol, c * d["tresca"])
    em = c * d["mises"]
    with np.errstate(invalid="ignore"):
        bad_m = (np.abs(res["mises"] - em) > tol) & (np.abs(res["mises"] ** 2 - em ** 2) > 1e-13 * (c * ref.norm) ** 2)
    add("mises", "value", bad_m, em)
    if exact_mises and base_mises is not None:
        add("mises", "not-bitwise-invariant-on-exact-lattice", ~_same(res["mises"], c * base_mises), c * base_mises)

    # --- inequalities
    # (same squared-domain allowance as for the Mises value: a hydrostatic state may come out as 1e-8*||s|| instead of 0)
    with np.errstate(invalid="ignore"):
        sq = 1e-13 * (c * ref.norm) ** 2
        add("mises", "inequality-mises-le-tresca", (res["mises"] > res["tresca"] + tol) & ~nan["tresca"]
            & (res["mises"] ** 2 > res["tresca"] ** 2 + sq))
        add("tresca", "inequality-tresca-le-2/sqrt3-mises",
            (res["tresca"] > 2.0 / eig3.SQRT3 * res["mises"] + tol) & ~nan["mises"]
            & (res["tresca"] ** 2 > 4.0 / 3.0 * res["mises"] ** 2 + sq))

    # --- absolute maximum principal: magnitude always, sign where the indicator is representable
    ind = c * d["indicator"]
    decided = np.abs(ind) > tol
    diag_exact = ref.diagonal & exact_sign & ~decided          # exact eigenvalues, indicator exactly 0 -> +1
    judged_abs = decided | diag_exact
    cnt["absmax_sign_not_judged(l_max=-l_min)"] = int((~judged_abs).sum())
    cnt["absmax_zero_indicator_judged_on_diagonal_tensor"] = int((diag_exact & (ref.norm > 0)).sum())
    sign_abs = np.where(ind >= 0, 1.0, -1.0)
    sign_abs[diag_exact] = 1.0
    add("abs_max_principal", "magnitude", np.abs(np.abs(res["abs_max_principal"]) - c * d["absmax_magnitude"]) > tol,
        c * d["absmax_magnitude"])
    exp_abs = np.where(sign_abs > 0, c * d["max_principal"], c * d["min_principal"])
    bad = judged_abs & (np.abs(res["abs_max_principal"] - exp_abs) > tol)
    add("abs_max_principal", "sign-at-zero-indicator", bad & diag_exact, exp_abs)
    add("abs_max_principal", "sign", bad & ~diag_exact, exp_abs)

    # --- signed variants
    if exact_sign:
        judged_tr = np.ones(n, dtype=bool)
    else:
        judged_tr = ref.trace != 0
    cnt["trace_sign_not_judged(trace=0,inexact)"] = int((~judged_tr).sum())
    sign_tr = np.where(ref.trace >= 0, 1.0, -1.0)
    for unsigned in ("mises", "tresca"):
        u = res[unsigned]
        for kind, sgn, judged, zero in (("trace", sign_tr, judged_tr, ref.trace == 0),
                                        ("abs_max_principal", sign_abs, judged_abs, diag_exact)):
            f = "signed_%s_%s" % (unsigned, kind)
            s = res[f]
            both = ~np.isnan(u)
            add(f, "magnitude", both & ~_same(np.abs(s), np.abs(u)), np.abs(u))
            bad = both & judged & _same(np.abs(s), np.abs(u)) & (u != 0) & ~_same(s, sgn * u)
            add(f, "sign-at-zero-indicator", bad & zero, sgn * u)
            add(f, "sign", bad & ~zero, sgn * u)
    return out, cnt


def _cfg_class(rot_name, scale):
    if rot_name == "cube00":
        return "base" if scale == 1.0 else "scaled"
    return "rotated" if scale == 1.0 else "rotated+scaled"


def _key(f, clause, cfgclass, style):
    """Function + violated clause.  The configuration class (base / rotated / scaled) goes to the detail only: the lattice
    is closed under the cube rotations, so every rotated frame is the base frame of another enumerated tensor."""
    if clause == "nan":
        return "C17/%s/nan" % f
    k = "C17/%s/%s" % (f, clause)
    if style != "column":
        k += "@" + style
    return k


def check_block(t, configs, scalar_for, acc=None):
    """t: (N,6) base tensors; configs: list of (rot_name, scale).  The base configuration is always evaluated first
    (violations of a function at the base configuration are reported once, not again for every rotation/scale).

    Returns list of (key, case, detail, count)."""
    viol = []
    ref = Ref(t)
    n = len(t)
    if not ref.self_check.all():
        i = int(np.argmin(ref.self_check))
        viol.append(("C17/reference-self-disagreement", {"tensor": t[i].tolist(), "rotation": "cube00", "scale": 1.0, "style": "column"},
                     {"jacobi": ref.lam[i].tolist()}, int((~ref.self_check).sum())))
    base_res = None
    base_bad = {}
    todo = [("cube00", 1.0)] + [cfg for cfg in configs if cfg != ("cube00", 1.0)]
    want = set(configs)
    for rot_name, scale in todo:
        rot, exact_rot = _rot(rot_name)
        v = eig3.rotate(t, rot) * scale
        cfgclass = _cfg_class(rot_name, scale)
        styles = [("column", None)]
        with warnings.catch_warnings():
            warnings.simplefilter("ignore")
            col = _call_columns(v)
            if cfgclass == "base":
                base_res = col
            accres, complaints = _call_accessor(v)
            if scalar_for == "all" or (scalar_for == "base" and cfgclass == "base") or \
                    (scalar_for == "cube" and exact_rot and scale == 1.0):
                styles.append(("scalar", _call_scalars(v)))
        report = (rot_name, scale) in want
        if acc is not None and report:
            acc.cases += n
            acc.evaluations += n * 10 * (len(styles) + 1)
            acc.count("column_calls", 10)
            acc.count("accessor_calls", 10)
            acc.count("scalar_calls", n * 10 * (len(styles) - 1))
            acc.nontrivial += int(((ref.norm > 0) & np.any(v != t, axis=1)).sum())
        col_bad = {}
        for style, r in styles:
            r = col if r is None else r
            found, cnt = judge(ref, r, scale, exact_rot, base_mises=base_res["mises"])
            if acc is not None and report and style == "column":
                for k, x in cnt.items():
                    acc.count(k, x)
            for f, clause, mask, expected in found:
                if style == "column":
                    col_bad[(f, clause)] = mask
                elif (f, clause) in col_bad:
                    mask = mask & ~col_bad[(f, clause)]        # the scalar call fails like the column call: one report
                bb = base_bad.setdefault((f, clause, style), np.zeros(n, dtype=bool))
                if cfgclass == "base":
                    bb |= mask
                else:
                    mask = mask & ~bb
                if not report or not mask.any():
                    continue
                i = int(np.argmax(mask))
                got = r[f][i] if f in r else {g: r[g][i] for g in r if FAMILY[g] == f and g != "principals"}
                viol.append((_key(f, clause, cfgclass, style),
                             {"tensor": [int(x) for x in t[i]], "rotation": rot_name, "scale": scale, "style": style},
                             {"configuration": cfgclass, "rotated_scaled_components": v[i].tolist(), "got": got,
                              "expected": None if expected is None else expected[i], "reference_eigenvalues": (scale * ref.lam[i]).tolist()},
                             int(mask.sum())))
        # accessor: same numbers as the plain functions, row by row, on the frame's index
        if report:
            for f, what in complaints:
                viol.append(("C17/accessor/%s/structure" % f, {"tensor": [int(x) for x in t[0]], "rotation": rot_name, "scale": scale,
                                                               "style": "accessor"}, {"what": what}, 1))
            for f in accres:
                if any(f == g for g, _ in complaints):
                    continue
                same = _same(accres[f], col[f])
                if f == "principals":
                    same = same.all(axis=1)
                if not same.all():
                    i = int(np.argmin(same))
                    viol.append(("C17/accessor/%s/differs-from-plain-function" % f,
                                 {"tensor": [int(x) for x in t[i]], "rotation": rot_name, "scale": scale, "style": "accessor"},
                                 {"accessor": accres[f][i], "plain": col[f][i], "row": i}, int((~same).sum())))
    return viol, ref, base_res


def _classes(acc, ref):
    lam, t = ref.lam, ref.t
    tol = 1e-9 * np.maximum(ref.norm, 1.0)
    rep = (np.abs(lam[:, 0] - lam[:, 1]) <= tol) | (np.abs(lam[:, 1] - lam[:, 2]) <= tol)
    hyd = ref.diagonal & (t[:, 0] == t[:, 1]) & (t[:, 1] == t[:, 2])
    acc.count("tensors", len(t))
    acc.count("tensors/zero", int((ref.norm == 0).sum()))
    acc.count("tensors/hydrostatic(nonzero)", int((hyd & (ref.norm > 0)).sum()))
    acc.count("tensors/diagonal", int(ref.diagonal.sum()))
    acc.count("tensors/repeated-eigenvalue", int(rep.sum()))
    acc.count("tensors/uniaxial(eigenvalues 0,0,x)", int(((np.abs(lam) <= tol[:, None]).sum(axis=1) == 2).sum()))
    acc.count("tensors/pure-shear(eigenvalues -x,0,x)", int(((np.abs(lam[:, 1]) <= tol) & (np.abs(lam[:, 0] + lam[:, 2]) <= tol) & (ref.norm > 0)).sum()))
    acc.count("tensors/trace-zero(nonzero tensor)", int(((ref.trace == 0) & (ref.norm > 0)).sum()))
    acc.count("tensors/absmax-indicator-zero(nonzero tensor)", int(((np.abs(lam[:, 0] + lam[:, 2]) <= tol) & (ref.norm > 0)).sum()))


def run_shard(shard):
    if shard[0] == "history":
        return run_history(shard)
    tier, alpha, s11, s22, scalar_for = shard
    acc = Acc()
    rest = sorted(alpha, key=lambda x: (abs(x), x))
    t = np.array([(s11, s22) + r for r in itertools.product(rest, repeat=4)], dtype=float)
    configs = [(rn, sc) for rn in _rotations(tier) for sc in _scales(tier)]
    viol, ref, base = check_block(t, configs, scalar_for, acc)
    _classes(acc, ref)
    for i in range(len(t)):
        acc.outcomes.add(hash(tuple(round(float(base[f][i]), 6) for f in SCALAR_FUNCS)))
    if s11 == 2 and s22 == -1:
        i = len(t) // 3
        acc.sample({"tensor": t[i].tolist(), "reference_eigenvalues": ref.lam[i].tolist(),
                    "pylife": {f: float(base[f][i]) for f in SCALAR_FUNCS}, "configs_per_tensor": len(configs)})
    for key, case, detail, count in viol:
        acc.violation(key, case, detail)
        acc.viol[key][0] += count - 1
    for key, case, detail in buffer_history(t, acc):
        acc.violation(key, case, detail)
    if s11 == 0 and s22 == 0:
        for key, case, detail in negative_zero(t, acc):
            acc.violation(key, case, detail)
    return acc


def negative_zero(t, acc=None):
    """Tensors whose normal components are all zero, once written with +0.0 and once with -0.0 (a unit shear state
    multiplied by a negative load): equal tensors, so every function returns equal numbers; a zero indicator means sign +1."""
    tz = t[t[:, 2] == 0]
    tneg = tz.copy()
    tneg[:, :3] = -0.0
    with warnings.catch_warnings():
        warnings.simplefilter("ignore")
        pos, neg = _call_columns(tz), _call_columns(tneg)
        negs = _call_scalars(tneg[:50])
        nega = _call_accessor(tneg)[0]
    if acc is not None:
        acc.cases += len(tz)
        acc.evaluations += 4 * len(tz) * len(SCALAR_FUNCS)
    out = []
    for f in SCALAR_FUNCS:
        for style, got, want in (("column", neg[f], pos[f]), ("scalar", negs[f], pos[f][:50]), ("accessor", nega[f], pos[f])):
            a, b = np.asarray(got, dtype=float), np.asarray(want, dtype=float)
            bad = ~((a == b) | (np.isnan(a) & np.isnan(b)))
            if bad.any():
                i = int(np.argmax(bad))
                out.append(("C17/%s/normal-components-minus-zero/%s" % (f, style), {"tensor": tneg[i].tolist(), "style": "negzero"},
                            {"with_-0.0": float(a[i]), "with_+0.0": float(b[i])}))
                break
    return out


def buffer_history(t, acc=None):
    """The six component arrays are BUFFERS that the caller re-uses: evaluate, double their contents in place, evaluate
    again with the very same array objects.  The second answer must be that of fresh arrays holding the doubled values."""
    import pylife.stress.equistress as EQ
    bufs = [t[:, i].copy() for i in range(6)]      # copies: with a single row a column slice is contiguous and would alias t
    with warnings.catch_warnings():
        warnings.simplefilter("ignore")
        for f in SCALAR_FUNCS:
            getattr(EQ, f)(*bufs)
        EQ.principals(*bufs)
        for b in bufs:
            b *= 2.0
        again = {f: np.asarray(getattr(EQ, f)(*bufs), dtype=float) for f in SCALAR_FUNCS}
        again["principals"] = np.asarray(EQ.principals(*bufs), dtype=float)
        fresh = _call_columns(2.0 * t)
    if acc is not None:
        acc.evaluations += 3 * len(t) * (len(SCALAR_FUNCS) + 1)
        acc.cases += len(t)
    out = []
    # ... and on mesh-sized columns (>= 20000 rows; implementations may switch to other code above some size): the result
    # of the first call is still held by the caller when the function is called again for other data of the same shape
    reps = -(-20000 // len(t))
    big = np.tile(t, (reps, 1))
    cols = [np.ascontiguousarray(big[:, i]) for i in range(6)]
    cols2 = [2.0 * c for c in cols]
    with warnings.catch_warnings():
        warnings.simplefilter("ignore")
        for f in SCALAR_FUNCS:
            held = getattr(EQ, f)(*cols)
            snapshot = np.array(held, dtype=float, copy=True)
            second = np.asarray(getattr(EQ, f)(*cols2), dtype=float)
            now = np.asarray(held, dtype=float)
            if not np.array_equal(now, snapshot, equal_nan=True):
                i = int(np.argmax(~((now == snapshot) | (np.isnan(now) & np.isnan(snapshot)))))
                out.append(("C17/%s/result-held-by-the-caller-changed-by-the-next-call" % f, {"tensor": big[i].tolist(), "style": "buffers"},
                            {"rows": len(big), "held_result_was": float(snapshot[i]), "held_result_is": float(now[i])}))
            elif not np.array_equal(second[:len(t)], fresh[f], equal_nan=True):
                i = int(np.argmax(~((second[:len(t)] == fresh[f]) | (np.isnan(second[:len(t)]) & np.isnan(fresh[f])))))
                out.append(("C17/%s/mesh-sized-columns-differ-from-short-columns" % f, {"tensor": (2.0 * t[i]).tolist(), "style": "buffers"},
                            {"rows": len(big), "long_column": float(second[i]), "short_column": float(fresh[f][i])}))
    if acc is not None:
        acc.evaluations += 2 * len(big) * len(SCALAR_FUNCS)
    # integer-valued components handed over with an INTEGER dtype ("scalar or column input" does not say float): int64
    # columns, short and mesh-sized, and python-int scalars give the numbers of the float columns (1e-9 * ||s||)
    ti = t.astype(np.int64)
    if np.array_equal(ti.astype(float), t):
        bigi = big.astype(np.int64)
        with warnings.catch_warnings():
            warnings.simplefilter("ignore")
            base = _call_columns(t)
            short_i = {f: np.asarray(getattr(EQ, f)(*[np.ascontiguousarray(ti[:, k]) for k in range(6)]), dtype=float) for f in HIST_FUNCS}
            long_i = {f: np.asarray(getattr(EQ, f)(*[np.ascontiguousarray(bigi[:, k]) for k in range(6)]), dtype=float)[:len(t)] for f in HIST_FUNCS}
            m = min(len(t), 25)
            scal_i = {f: np.array([np.asarray(getattr(EQ, f)(*[int(x) for x in row]), dtype=float).reshape(-1) for row in ti[:m]]) for f in HIST_FUNCS}
        if acc is not None:
            acc.evaluations += (len(t) + len(big) + m) * len(HIST_FUNCS)
        tol = RTOL * np.maximum(eig3.frobenius(t), 1e-300)
        for f in HIST_FUNCS:
            for style, got, rows in (("int64-columns", short_i[f], len(t)), ("int64-mesh-sized-columns", long_i[f], len(t)),
                                     ("python-int-scalars", scal_i[f].reshape(base[f][:m].shape), m)):
                want = base[f][:rows]
                tl = tol[:rows] if want.ndim == 1 else tol[:rows, None]
                bad = ~(np.abs(got - want) <= tl)
                if bad.ndim > 1:
                    bad = bad.any(axis=1)
                if got.shape != want.shape or bad.any():
                    i = int(np.argmax(bad)) if got.shape == want.shape else 0
                    out.append(("C17/%s/integer-dtype-input-differs-from-float-input/%s" % (f, style), {"tensor": t[i].tolist(), "style": "buffers"},
                                {"rows": len(big) if "mesh" in style else rows, "integer_input": np.asarray(got[i]).tolist(), "float_input": np.asarray(want[i]).tolist()}))
                    break
    for f in list(SCALAR_FUNCS) + ["principals"]:
        a, b = again[f], fresh[f]
        bad = ~((a == b) | (np.isnan(a) & np.isnan(b)))
        if bad.ndim > 1:
            bad = bad.any(axis=1)
        if bad.any():
            i = int(np.argmax(bad))
            out.append(("C17/%s/stale-after-in-place-change-of-the-argument-arrays" % f, {"tensor": t[i].tolist(), "style": "buffers"},
                        {"second_call_on_the_same_arrays": np.asarray(a[i]).tolist(), "fresh_arrays_with_the_same_content": np.asarray(b[i]).tolist()}))
    return out


# --------------------------------------------------------------------------------------------------- call histories
# Every sequence of calls up to a depth on KEPT objects: one DataFrame and one accessor object obtained from it at the
# start (eq = df.equistress), the six caller-owned component arrays, and caller actions in between (assign scaled columns
# to the frame, change one entry with .loc, scale the component arrays in place, overwrite the result returned last).
# Oracle for every call: the numbers are those of the plain functions for fresh copies of the CURRENT content (bitwise;
# those in turn agree with the reference eigenvalue definitions), and results returned earlier are left alone.
HIST_FUNCS = SCALAR_FUNCS + ("principals",)
HIST_OPS = [(st, f) for st in ("kept-accessor", "fresh-accessor", "plain") for f in HIST_FUNCS] + \
           [("caller", a) for a in ("frame-columns-times-3", "frame-loc-entry-plus-5", "arrays-times-2-in-place", "overwrite-last-result")]
HIST_DEPTH = {"quick": 3, "thorough": 4}
HIST_TENSORS = np.array([[5, 0, 0, 0, 0, 0], [0, 0, 0, 3, 0, 0], [-4, -4, -4, 0, 0, 0], [2, 2, -1, 0, 0, 0], [0, 0, 0, 0, 0, 0],
                         [3, -2, 1, 2, -1, 1], [-3, 1, -1, 1, 2, -2]], dtype=float)
_HIST_EXPECT = {}


def _hist_expected(content):
    key = content.tobytes()
    if key not in _HIST_EXPECT:
        fresh = _call_columns(content.copy())
        lam = eig3.jacobi_eigenvalues(content)
        d, tol = eig3.definitions(lam), RTOL * np.maximum(eig3.frobenius(content), 1e-300)
        ok = all(np.all(np.abs(fresh[f] - d[f]) <= tol) for f in ("mises", "tresca", "max_principal", "min_principal")) and \
            np.all(np.abs(fresh["principals"] - lam) <= tol[:, None]) and \
            all(np.all(np.abs(np.abs(fresh[f]) - d[FAMILY[f]]) <= tol) for f in SCALAR_FUNCS if f.startswith("signed_")) and \
            np.all(np.abs(np.abs(fresh["abs_max_principal"]) - d["absmax_magnitude"]) <= tol)
        _HIST_EXPECT[key] = (fresh, bool(ok))
    return _HIST_EXPECT[key]


def history_run(seq, acc=None):
    import pandas as pd
    import pylife.stress.equistress as EQ
    n = len(HIST_TENSORS)
    index = pd.Index([3 * (n - i) + 7 for i in range(n)], name="element_id")
    df = pd.DataFrame({c: HIST_TENSORS[:, VOIGT_POS[c]].copy() for c in ACC_COLUMNS}, index=index)
    eq = df.equistress
    bufs = [np.ascontiguousarray(HIST_TENSORS[:, i]).copy() for i in range(6)]
    canon = sorted(VOIGT_POS, key=VOIGT_POS.get)
    held, last = [], None
    for depth, oi in enumerate(seq):
        st, f = HIST_OPS[oi]
        if st == "caller":
            if f == "frame-columns-times-3":
                df[ACC_COLUMNS] = df[ACC_COLUMNS] * 3.0
            elif f == "frame-loc-entry-plus-5":
                df.loc[index[-2], "S11"] = df.loc[index[-2], "S11"] + 5.0
            elif f == "arrays-times-2-in-place":
                for b in bufs:
                    b *= 2.0
            elif last is not None:
                obj = held[last][1]
                try:
                    if isinstance(obj, np.ndarray):
                        obj *= 1e-6
                    else:
                        obj.iloc[0] = 12345.0
                    held[last][2] = np.array(obj, dtype=float, copy=True)
                except (ValueError, TypeError):
                    pass                                   # read-only result: nothing the caller can overwrite
            continue
        content = df[canon].to_numpy(dtype=float, copy=True) if st != "plain" else np.stack([b.copy() for b in bufs], axis=1)
        before = content.copy()
        with warnings.catch_warnings():
            warnings.simplefilter("ignore")
            try:
                res = getattr(eq if st == "kept-accessor" else df.equistress, f)() if st != "plain" else getattr(EQ, f)(*bufs)
            except Exception as e:      # noqa: BLE001
                return [("C17/%s/history/%s-raises-%s" % (f, st, type(e).__name__), {"at": depth, "message": str(e)[:160]})]
            expected, agrees_with_reference = _hist_expected(content)
        if acc is not None:
            acc.transitions += 1
            acc.evaluations += n
        after = df[canon].to_numpy(dtype=float, copy=True) if st != "plain" else np.stack(bufs, axis=1)
        if not np.array_equal(before, after):
            return [("C17/%s/history/%s-changes-the-callers-data" % (f, st), {"at": depth, "before": before.tolist(), "after": after.tolist()})]
        if not agrees_with_reference:
            return [("C17/%s/history/plain-functions-on-fresh-copies-disagree-with-the-eigenvalue-definitions" % f, {"at": depth, "content": content.tolist()})]
        got = np.asarray(res, dtype=float)
        want = expected[f]
        if got.shape != want.shape or not np.all(_same(got, want)):
            return [("C17/%s/history/%s-answer-is-not-that-of-the-current-content" % (f, st),
                     {"at": depth, "got": got.tolist(), "plain_function_on_fresh_copies": want.tolist(), "content": content.tolist()})]
        for j, (name, obj, snap) in enumerate(held):
            now = np.asarray(obj, dtype=float)
            if now.shape != snap.shape or not np.all(_same(now, snap)):
                return [("C17/%s/history/result-held-by-the-caller-changed-by-a-later-call" % name.split(".")[1],
                         {"at": depth, "held": name, "later_call": "%s.%s" % (st, f), "was": snap.tolist(), "now": now.tolist()})]
        held.append(["%s.%s" % (st, f), res, np.array(res, dtype=float, copy=True)])
        last = len(held) - 1
    return []


def run_history(shard):
    _, depth, prefix = shard
    acc = Acc()
    nops = range(len(HIST_OPS))
    outcomes = set()
    for d in range(max(1, len(prefix)), depth + 1):
        for rest in itertools.product(nops, repeat=d - len(prefix)):
            seq = tuple(prefix) + rest
            acc.cases += 1
            acc.max_depth = max(acc.max_depth, d)
            if sum(HIST_OPS[i][0] == "caller" for i in seq[:-1]) and HIST_OPS[seq[-1]][0] != "caller":
                acc.nontrivial += 1
            for key, detail in history_run(seq, acc):
                acc.violation(key, {"style": "history", "seq": list(seq), "ops": ["%s.%s" % HIST_OPS[i] for i in seq]}, detail)
    acc.states += len(_HIST_EXPECT)
    return acc


def replay(case):
    if case.get("style") == "history":
        return history_run(case["seq"])
    t = np.array([case["tensor"]], dtype=float)
    style = case.get("style", "column")
    if style == "buffers":
        return [(k, d) for k, c, d in buffer_history(t)]
    if style == "negzero":
        t[:, :3] = 0.0
        return [(k, d) for k, c, d in negative_zero(t)]
    viol, _, _ = check_block(t, [(case["rotation"], float(case["scale"]))], "all" if style == "scalar" else "none")
    return [(k, d) for k, c, d, _ in viol]
