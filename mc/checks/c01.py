"""C01 - rainflow counting is independent of how the signal is chunked (history search on the real detectors).

System   : ThreePointDetector / FourPointDetector / FKMDetector + FullRecorder (real objects).
Events   : "process the next l samples" (l = 1 .. remaining).  A history is a composition of the signal.
Search   : per signal, BFS over (prefix length, canonical full state of detector+recorder).  Histories that
           reach the same full state are merged (deterministic system => same futures); histories that
           agree on the observables but differ internally are kept apart.
Invariant: in every state the observables equal those of a fresh detector fed the same prefix in one
           piece; per transition recorder.chunks grows by exactly [l]; for every complete history of the
           un-merged enumeration chunk_local_index() maps every global index to the chunk/position that
           holds that sample.
"""
import copy

import numpy as np

from mc import build_ext
from mc.explore import Acc, compositions, signals, chunked

ID = "C01"
LEVEL = "model_checking"
RULE = ("all float signals over the alphabet up to the length bound x all compositions into chunks (BFS over "
        "prefix states with merging of identical full states, plus plain un-merged enumeration of all "
        "compositions up to the cross-check bound); non-trivial = (signal, detector) with >=1 closed cycle, "
        ">=2 reachable chunk borders and at least one border strictly inside the turning-point span")
ASSUMPTIONS = [
    "closing rules depend only on order relations of values / |differences| / |values|; small integer alphabets "
    "produce every tie and plateau pattern of the enumerated lengths",
    "detectors are deterministic functions of (state, chunk); merging histories with identical full state "
    "(detector fields + recorder contents) is therefore sound",
    "rainflow_ext is rebuilt from the working tree's extension.pyx before the run",
]

DETS = ("ThreePointDetector", "FourPointDetector", "FKMDetector")
A3 = (0.0, 1.0, 2.0)
A4 = (-1.0, 0.0, 1.0, 2.0)
A5 = (-2.0, -1.0, 0.0, 1.0, 2.0)


def bounds(tier):
    if tier == "quick":
        return {"3pt/4pt": {"alphabet": A3, "n_max": 7}, "FKM": [{"alphabet": A3, "n_max": 7}, {"alphabet": A5, "n_max": 5}],
                "unmerged_crosscheck_n_max": 6, "chunk_local_index_pure_n_max": 10}
    return {"3pt/4pt": [{"alphabet": A3, "n_max": 10}, {"alphabet": A4, "n_max": 8}],
            "FKM": [{"alphabet": A3, "n_max": 10}, {"alphabet": A4, "n_max": 8}, {"alphabet": A5, "n_max": 7}],
            "unmerged_crosscheck_n_max": 8, "chunk_local_index_pure_n_max": 12}


def prepare(tier):
    build_ext.ensure()


def _plan(tier):
    """[(kind, detector names, alphabet, nmin, nmax)]"""
    if tier == "quick":
        return [("bfs", DETS, A3, 1, 7), ("bfs", ("FKMDetector",), A5, 1, 5),
                ("flat", DETS, A3, 1, 6), ("flat", ("FKMDetector",), A5, 1, 4), ("cli", (), (), 1, 10)]
    return [("bfs", DETS, A3, 1, 10), ("bfs", DETS, A4, 1, 8), ("bfs", ("FKMDetector",), A5, 1, 7),
            ("flat", DETS, A3, 1, 8), ("flat", DETS, A4, 1, 6), ("flat", ("FKMDetector",), A5, 1, 5), ("cli", (), (), 1, 12)]


def shards(tier):
    out = []
    for kind, dets, alpha, nmin, nmax in _plan(tier):
        if kind == "cli":
            out.append(("cli", nmax))
            continue
        for n in range(nmin, nmax + 1):
            sigs = list(signals(alpha, n, n))
            size = max(1, min(len(sigs), 400 if kind == "bfs" else 150))
            for block in chunked(sigs, size):
                out.append((kind, dets, block))
    return out


# ---------------------------------------------------------------------------------------------------------
def _new(detname):
    import pylife.stress.rainflow as RF
    return getattr(RF, detname)(recorder=RF.FullRecorder())


def _observe(det):
    rec = det.recorder
    return (tuple(np.asarray(rec.values_from, dtype=float).tolist()), tuple(np.asarray(rec.values_to, dtype=float).tolist()),
            tuple(int(i) for i in rec.index_from), tuple(int(i) for i in rec.index_to),
            tuple(np.asarray(det.residuals, dtype=float).tolist()), tuple(int(i) for i in det.residual_index))


def _full_state(det):
    return _observe(det) + (
        tuple(np.asarray(det._sample_tail, dtype=float).tolist()), int(det._head_index),
        tuple(int(i) for i in det._residual_index), int(getattr(det, "_ir", -1)), float(getattr(det, "_max_turn", -1.0)))


OBS = ("values_from", "values_to", "index_from", "index_to", "residuals", "residual_index")


def _diff(got, exp):
    if exp and exp[0] == "raised":
        return "one-piece-raises-" + exp[1], None, list(exp)
    for name, g, e in zip(OBS, got, exp):
        if g != e:
            return name, g, e
    return None


class Raised(Exception):
    """pyLife raised where the property expects a result"""


def _one_piece(detname, prefix):
    det = _new(detname)
    try:
        det.process(np.array(prefix, dtype=float))
    except Exception as e:  # noqa: BLE001
        return ("raised", type(e).__name__, str(e)[:120])
    return _observe(det)


def _bfs_signal(acc, detname, sig, report=True):
    """Explore all chunkings of sig.  Returns list of (key, case, detail) violations."""
    n = len(sig)
    viol = []
    ref = {p: _one_piece(detname, sig[:p]) for p in range(1, n + 1)}
    acc.evaluations += n
    start = _new(detname)
    level = {0: {_full_state(start): (start, [])}}
    for p in range(1, n + 1):
        level[p] = {}
    nstates = 1
    for p in range(0, n):
        for key, (det, hist) in level[p].items():
            for length in range(1, n - p + 1):
                d2 = copy.deepcopy(det)
                chunks_before = d2.recorder.chunks.tolist()
                acc.transitions += 1
                acc.evaluations += 1
                q = p + length
                h2 = hist + [length]
                try:
                    d2.process(np.array(sig[p:p + length], dtype=float))
                except Exception as e:  # noqa: BLE001
                    viol.append(("C01/%s/raises-%s" % (detname, type(e).__name__), {"det": detname, "signal": sig, "chunks": h2},
                                 {"error": str(e)[:200]}))
                    continue
                if detname != "FKMDetector" and d2.recorder.chunks.tolist() != chunks_before + [length]:
                    viol.append(("C01/%s/chunks-bookkeeping" % detname, {"det": detname, "signal": sig, "chunks": h2},
                                 {"chunks": d2.recorder.chunks.tolist(), "expected": chunks_before + [length]}))
                obs = _observe(d2)
                d = _diff(obs, ref[q])
                if d is not None:
                    viol.append(("C01/%s/%s" % (detname, d[0]), {"det": detname, "signal": sig, "chunks": h2},
                                 {"observable": d[0], "chunked": d[1], "one_piece": d[2]}))
                    continue          # do not expand a state that already violates
                k2 = _full_state(d2)
                if k2 not in level[q]:
                    level[q][k2] = (d2, h2)
                    nstates += 1
                acc.max_depth = max(acc.max_depth, len(h2))
    acc.states += nstates
    final = ref[n]
    acc.outcomes.add(hash((detname, final)))
    return viol, final


def _tp_span(sig):
    from mc.refs.rainflow import interior_reversals
    r = interior_reversals(list(sig))
    return (r[0][0], r[-1][0]) if r else None


def _nontrivial(sig, final):
    span = _tp_span(sig)
    if final[0] == "raised":
        return False
    return len(final[0]) >= 1 and len(sig) >= 3 and span is not None and span[1] > span[0]


def _run_flat(detname, sig, chunks, midstream=None, reuse=False):
    """reuse: every chunk is handed over in ONE buffer that is refilled in place between the calls (a preallocated
    acquisition buffer): each call still sees exactly its chunk's samples.
    midstream: list collecting chunk_local_index failures observed *between* chunks (the recorder is asked after
    every chunk, as a consumer that resolves loop indices while the signal is still streaming would do)"""
    det = _new(detname)
    p = 0
    buf = np.empty(max(chunks), dtype=float) if reuse else None
    for k, length in enumerate(chunks):
        try:
            if reuse:
                buf[:length] = sig[p:p + length]
                buf[length:] = -77.0
                det.process(buf[:length])
            else:
                det.process(np.array(sig[p:p + length], dtype=float))
        except Exception as e:  # noqa: BLE001
            raise Raised(type(e).__name__, str(e)[:200])
        p += length
        if midstream is not None and detname != "FKMDetector" and not midstream:
            bad = _check_chunk_local_index(det.recorder, sig[:p], list(chunks[:k + 1]))
            if bad is not None:
                midstream.append(dict(bad, asked_after_chunk=k + 1))
    return det


def _check_chunk_local_index(rec, sig, chunks):
    """Every global index g -> (c, l) with sum(chunks[:c]) + l == g, 0 <= l < chunks[c], same sample."""
    n = len(sig)
    pieces, p = [], 0
    for length in chunks:
        pieces.append(sig[p:p + length])
        p += length
    g = np.arange(n)
    cnum, cloc = rec.chunk_local_index(g)
    for gi, c, l in zip(g.tolist(), np.asarray(cnum).tolist(), np.asarray(cloc).tolist()):
        if not (0 <= c < len(chunks) and 0 <= l < chunks[c] and sum(chunks[:c]) + l == gi and pieces[c][l] == sig[gi]):
            return {"global_index": gi, "chunk": c, "local": l, "chunks": chunks}
    return None


def _flat_signal(acc, detname, sig):
    viol = []
    n = len(sig)
    one = _one_piece(detname, sig)
    acc.evaluations += 1
    finals = set()
    for comp in compositions(n):
        mid = []
        try:
            det = _run_flat(detname, sig, comp, mid)
        except Raised as r:
            viol.append(("C01/%s/raises-%s" % (detname, r.args[0]), {"det": detname, "signal": sig, "chunks": comp}, {"error": r.args[1]}))
            continue
        if mid:
            viol.append(("C01/%s/chunk_local_index/asked-between-chunks" % detname, {"det": detname, "signal": sig, "chunks": comp}, mid[0]))
        acc.evaluations += len(comp)
        acc.transitions += len(comp)
        acc.max_depth = max(acc.max_depth, len(comp))
        obs = _observe(det)
        finals.add(obs)
        d = _diff(obs, one)
        case = {"det": detname, "signal": sig, "chunks": comp}
        if d is not None:
            viol.append(("C01/%s/%s" % (detname, d[0]), case, {"observable": d[0], "chunked": d[1], "one_piece": d[2]}))
        if len(comp) >= 2:
            # the same composition fed through one reused buffer
            try:
                d2 = _diff(_observe(_run_flat(detname, sig, comp, None, reuse=True)), one)
            except Raised as r:
                d2 = ("raises-" + r.args[0], None, r.args[1])
            acc.evaluations += len(comp)
            acc.transitions += len(comp)
            if d2 is not None:
                viol.append(("C01/%s/reused-chunk-buffer/%s" % (detname, d2[0]), dict(case, reuse_buffer=True),
                             {"observable": d2[0], "chunked_through_one_buffer": d2[1], "one_piece": d2[2]}))
        if detname != "FKMDetector":
            rec = det.recorder
            if rec.chunks.tolist() != comp:
                viol.append(("C01/%s/chunks-bookkeeping" % detname, case, {"chunks": rec.chunks.tolist()}))
            bad = _check_chunk_local_index(rec, sig, comp)
            if bad is None:
                # every reported index must address a sample holding the reported value, via the chunk map
                for idx, val in ((obs[2], obs[0]), (obs[3], obs[1])):
                    if len(idx):
                        cnum, cloc = rec.chunk_local_index(np.array(idx))
                        starts = np.insert(np.cumsum(comp), 0, 0)
                        for c, l, v in zip(cnum.tolist(), cloc.tolist(), val):
                            if sig[starts[c] + l] != v:
                                bad = {"chunk": c, "local": l, "value": v}
            if bad is not None:
                viol.append(("C01/%s/chunk_local_index" % detname, case, bad))
    # flush histories: process(prefix ending ON an interior reversal, flush=True), then process(rest).  Flushing exactly a
    # true reversal only anticipates what the next chunk would decide anyway (AbstractDetector.process docstring, example
    # a), so the result must equal one-piece processing.
    from mc.refs.rainflow import interior_reversals
    for k, _ in interior_reversals(list(sig)):
        if sig[k + 1] == sig[k]:
            continue                      # reversal plateau: the flushed sample is not the last sample of the plateau
        det = _new(detname)
        try:
            det.process(np.array(sig[:k + 1], dtype=float), flush=True)
            det.process(np.array(sig[k + 1:], dtype=float))
        except Exception as e:  # noqa: BLE001
            viol.append(("C01/%s/flush-at-reversal/raises-%s" % (detname, type(e).__name__),
                         {"det": detname, "signal": sig, "chunks": [k + 1, n - k - 1], "flush_first": True}, {"error": str(e)[:200]}))
            continue
        acc.evaluations += 2
        acc.transitions += 2
        d = _diff(_observe(det), one)
        if d is not None:
            viol.append(("C01/%s/flush-at-reversal/%s" % (detname, d[0]), {"det": detname, "signal": sig, "chunks": [k + 1, n - k - 1], "flush_first": True},
                         {"observable": d[0], "flushed_then_continued": d[1], "one_piece": d[2]}))
    acc.states += len(finals)
    return viol, one


def _cli_pure(acc, nmax):
    """AbstractRecorder.chunk_local_index as a pure function: all compositions of n <= nmax, all g."""
    from pylife.stress.rainflow.general import AbstractRecorder
    for n in range(1, nmax + 1):
        sig = list(range(n))
        for comp in compositions(n):
            rec = AbstractRecorder()
            for c in comp:
                rec.report_chunk(c)
            acc.evaluations += 1
            acc.cases += 1
            acc.transitions += len(comp)
            if len(comp) >= 2:
                acc.nontrivial += 1
            bad = _check_chunk_local_index(rec, sig, comp)
            if bad is not None:
                acc.violation("C01/chunk_local_index", {"det": "AbstractRecorder", "signal": sig, "chunks": comp}, bad)
        acc.states += n
    acc.sample({"kind": "chunk_local_index over all compositions", "n_max": nmax})


def run_shard(shard):
    prepare(None)
    acc = Acc()
    if shard[0] == "cli":
        _cli_pure(acc, shard[1])
        return acc
    kind, dets, block = shard
    for sig in block:
        sig = list(sig)
        for detname in dets:
            acc.cases += 1
            if kind == "bfs":
                viol, final = _bfs_signal(acc, detname, sig)
            else:
                viol, final = _flat_signal(acc, detname, sig)
            if _nontrivial(sig, final):
                acc.nontrivial += 1
                if len(acc.samples) < 2 and len(final[0]) >= 2:
                    acc.sample({"kind": kind, "det": detname, "signal": sig, "cycles_from": final[0], "cycles_to": final[1],
                                "residuals": final[4]})
            for key, case, detail in viol:
                acc.violation(key, case, detail)
    return acc


def replay(case):
    """Run exactly one (detector, signal, chunking) and compare with one-piece processing."""
    detname, sig, comp = case["det"], [float(x) for x in case["signal"]], [int(c) for c in case["chunks"]]
    out = []
    if detname == "AbstractRecorder":
        from pylife.stress.rainflow.general import AbstractRecorder
        rec = AbstractRecorder()
        for c in comp:
            rec.report_chunk(c)
        bad = _check_chunk_local_index(rec, sig, comp)
        return [("C01/chunk_local_index", bad)] if bad else []
    n_done = sum(comp)
    one = _one_piece(detname, sig[:n_done])
    if case.get("flush_first"):
        det = _new(detname)
        try:
            det.process(np.array(sig[:comp[0]], dtype=float), flush=True)
            det.process(np.array(sig[comp[0]:], dtype=float))
        except Exception as e:  # noqa: BLE001
            return [("C01/%s/flush-at-reversal/raises-%s" % (detname, type(e).__name__), {"error": str(e)[:200]})]
        d = _diff(_observe(det), one)
        return [("C01/%s/flush-at-reversal/%s" % (detname, d[0]), {"observable": d[0], "flushed_then_continued": d[1], "one_piece": d[2]})] if d else []
    if case.get("reuse_buffer"):
        try:
            d2 = _diff(_observe(_run_flat(detname, sig, comp, None, reuse=True)), one)
        except Raised as r:
            d2 = ("raises-" + r.args[0], None, r.args[1])
        return [("C01/%s/reused-chunk-buffer/%s" % (detname, d2[0]), {"observable": d2[0], "chunked_through_one_buffer": d2[1], "one_piece": d2[2]})] if d2 else []
    mid = []
    try:
        det = _run_flat(detname, sig, comp, mid)
    except Raised as r:
        return [("C01/%s/raises-%s" % (detname, r.args[0]), {"error": r.args[1]})]
    if mid:
        out.append(("C01/%s/chunk_local_index/asked-between-chunks" % detname, mid[0]))
    obs = _observe(det)
    d = _diff(obs, one)
    if d is not None:
        out.append(("C01/%s/%s" % (detname, d[0]), {"observable": d[0], "chunked": d[1], "one_piece": d[2]}))
    if detname != "FKMDetector":
        if det.recorder.chunks.tolist() != comp:
            out.append(("C01/%s/chunks-bookkeeping" % detname, {"chunks": det.recorder.chunks.tolist()}))
        bad = _check_chunk_local_index(det.recorder, sig[:n_done], comp)
        if bad is not None:
            out.append(("C01/%s/chunk_local_index" % detname, bad))
    return out
