"""C10 - perform_fkm_nonlinear_assessment: batch independence, insensitivity to non-reversal samples,
monotonicity, N_10 <= N_50 <= N_90.

One call of the assessment costs about 1 s, so the space is small but it is enumerated completely:

batch     every ordered selection of load ratios (see bounds) of every template x parameter set x
          {uniform G, per-point G}, assessed in ONE call with max_load_independently_for_nodes=True; each point's
          lifetimes / verdicts must equal those of its single-point call (plain pd.Series, scalar G).
refine    every single insertion of a repeated value or of a midpoint into every gap of the template (cyclic:
          the wrap-around gap is refined once behind the last and once in front of the first sample); none of
          these samples is a reversal of the repeated sequence, so lifetimes and verdicts must not change.
mono      lines of the grid load scale x R_z x P_A (one axis varies, the others fixed): lifetime must not
          increase along the line, an infinite-life verdict must not appear along the line; every call with
          P_A = 0.5 reports N_10/N_50/N_90, which must be ordered.

The oracle is differential / metamorphic: pyLife against itself along another path.  No reference model.

Violation keys name the input class / cause where the check can tell it from the failing case itself:
C10/praj-class-limits-batch-max (batch: the point's P_RAJ class limit differs from its single run),
C10/batch-lut-class-edge and C10/monotone-scale-lut-class-edge/... (template loads exactly on an edge of the notch
look-up table), .../P_RAJ-lifetime-class-discretisation (the pair is monotone again with 5000 instead of 200 P_RAJ
classes), C10/refinement-junction-... (inserted sample at the border between the two HCM passes).
"""
import contextlib
import io
import itertools
import math
import warnings

import numpy as np

from mc import build_ext
from mc.explore import Acc

ID = "C10"
LEVEL = "exploration"
RULE = ("complete enumeration of (template, parameter set) x {ordered ratio selections x G mode | single insertions "
        "| grid lines}; one case = one batch call / one refined sequence / one grid line.  non-trivial = batch with "
        ">= 2 points that differ in load ratio or G of which >= 1 has finite life; refinement whose unrefined sequence has "
        "finite P_RAM and P_RAJ life; grid line with >= 2 different finite lifetimes")
ASSUMPTIONS = [
    "differential oracle: a single-point call (plain Series, scalar G) is taken as the meaning of 'the point's "
    "lifetime'; the property relates calls to each other, absolute correctness of a lifetime is C05/C09's business",
    "lifetimes are compared with rtol 1e-9 (the pipeline is deterministic; identical inputs of a point give "
    "identical floating point operations in a batch and alone), verdicts with ==, monotonicity with the same rtol as slack",
    "templates with max |load| = 251 (prime) keep every load and load range off the edges of the 100-class notch "
    "look-up table; the guideline example (max 250, loads on class edges) is included as it is",
    "rainflow_ext is rebuilt from the working tree's extension.pyx before the run",
]

RTOL = 1e-9

# ---------------------------------------------------------------------------------------------------------------
# the finite space
# ---------------------------------------------------------------------------------------------------------------
# name -> loads [N].  Except for 'leading0' (first sample 0) and 'repeated' (leading plateau) the border between
# pass 1 and pass 2 is benign by construction: the last sample is a reversal of the repeated sequence, differs from
# the first sample and does not lie between 0 and the first sample, no trailing plateau.  Refinements that put
# a sample AT that border are keyed apart (C10/refinement-junction-...).
TEMPLATES = {
    "guideline":  [100, -200, 100, -250, 200, 0, 200, -200],          # FKM nonlinear 2.7.1 / 2.10.1
    "constamp":   [251, -120, 251, -120, 251, -120],                   # constant amplitude with mean load
    "nested":     [-251, 180, -122, 91, -43, 61, -93, 133, -171, 249],  # loops nested four deep
    "leading0":   [0, 121, -251, 62, -133, 203, -87],                  # first sample 0
    "nonrev":     [101, 152, 251, 43, -61, -183, -92, 33, 177, -203],  # monotone stretches (non-reversal samples)
    "repeated":   [123, 123, -251, -251, 81, 81, -43, 203, 203, -160],  # plateaus
    "closed":     [251, -120, 183, -61, 251],                          # ends on the value it starts with (a closed load cycle)
}
Q_TEMPLATES = ("guideline", "nested", "repeated")
T_TEMPLATES = tuple(t for t in TEMPLATES if t != "closed")       # 'closed' is used by the refinement part only

_BASE = dict(MatGroupFKM="Steel", FinishingFKM="none", R_m=500, R_z=250, P_A=7.2e-5, P_L=2.5, c=1.4, A_sigma=339.4,
             A_ref=500, G=2 / 15, s_L=10, K_p=3.5, x_Einsatz=3000, r=15, n_bins=200,
             max_load_independently_for_nodes=True)


def _ps(**kw):
    d = dict(_BASE)
    for k, v in kw.items():
        if v is None:
            d.pop(k, None)
        else:
            d[k] = v
    return d


PARAMS = {
    "steel-normal":   _ps(),                                                   # the parameter set of the repository's tests
    "steel-nostat":   _ps(P_A=0.5, P_L=50, s_L=None),                          # reports N_10/50/90
    "alu-lognormal":  _ps(MatGroupFKM="Al_wrought", R_m=350, R_z=25, P_A=1e-3, P_L=2.5, s_L=None, LSD_s=0.02, K_p=2.0, c=0.8),
    "cast-blanket":   _ps(MatGroupFKM="SteelCast", R_m=600, R_z=100, P_A=1e-5, P_L=2.5, s_L=None, K_p=2.5, c=1.2),
}
# load ratios of co-assessed points: far below the endurance limit (infinite life), just above the P_RAJ endurance
# limit of the template (smallest multiple of 0.01 with finite P_RAJ life under 'steel-normal': the hysteresis
# classes then lie next to the class of the endurance limit), the template itself, and well above
NEAR_ENDURANCE = {"guideline": 0.53, "constamp": 0.61, "nested": 0.47, "leading0": 0.53, "nonrev": 0.51, "repeated": 0.53, "closed": 0.53}
ROLES_Q = ("low", "near", "high")
ROLES_T = ("low", "near", "mid", "high")
# per-point stress gradients [1/mm].  For G below about 4/mm the fracture mechanics support factor n_bm is clamped
# to 1 for these materials and G has no effect at all; 5, 20 give n_bm = 1.04, 1.37 (Steel, R_m = 500).
G_OF_ROLE = {"low": 0.1, "near": 5.0, "mid": 20.0, "high": 2.0}
G_BY_POSITION = (0.1, 20.0, 5.0)                            # ... for batches of points with equal loads
HUGE = 4.5                                                  # load ratio of a point far above the others (250 MPa -> 1125 MPa)
NODE_LABELS = (9, 5, 8, 2)                                  # node ids of a batch: neither ascending nor descending
G_LABELS = (8, 5, 9, 3)                                     # index labels of the G series (arbitrary by contract; deliberately not ascending)


def _loads_of(case):
    return [float(x) for x in case["loads"]] if "loads" in case else TEMPLATES[case["template"]]


def _ratio(template, role):
    return {"low": 0.3, "near": NEAR_ENDURANCE[template], "mid": 1.0, "high": 1.3}[role]


P_A_LIST = (0.5, 2.3e-1, 1e-3, 7.2e-5, 1e-5, 1e-6, 1e-7)     # the tabulated list, decreasing
RZ_LIST = (1, 25, 250)
SCALES_Q = (1.0, 1.1, 1.5)
SCALES_T = (1.0, 1.01, 1.02, 1.03, 1.04, 1.05, 1.06, 1.07, 1.08, 1.09, 1.1, 1.2, 1.3, 1.5, 2.0)

O_TEMPLATES = tuple(t for t in T_TEMPLATES if t not in Q_TEMPLATES)

# every alternating (each sample a reversal) sequence over six load levels: which of the crack opening cases of
# P_RAJ, which memory rule of the HCM and which branch a hysteresis falls into then differs between co-assessed
# points in every combination such short sequences can produce.  The levels avoid the edges of the look-up table.
ENUM_LEVELS = (-301, -187, -61, 59, 183, 301)
ENUM_RATIOS_Q = ((1.0, 0.7),)
ENUM_RATIOS_T = ((1.0, 0.7), (0.7, 1.0), (0.45, 1.3, 1.0))


def zigzags(n):
    out = []
    for s_ in itertools.product(ENUM_LEVELS, repeat=n):
        d = [b - a for a, b in zip(s_, s_[1:])]
        if all(x != 0 for x in d) and all(d[i] * d[i + 1] < 0 for i in range(len(d) - 1)) and not on_lut_edge(s_):
            out.append(list(s_))
    return out


def _plan(tier):
    """which (parameter set, templates) are explored by which part"""
    if tier == "quick":
        return {"batch": [("steel-normal", Q_TEMPLATES)], "refine": [("steel-normal", Q_TEMPLATES + ("closed",))],
                "mono-star": [("steel-normal", Q_TEMPLATES)], "mono-grid": [], "mono-ladder": []}
    return {"batch": [("steel-normal", T_TEMPLATES), ("steel-nostat", Q_TEMPLATES), ("alu-lognormal", O_TEMPLATES)],
            "refine": [("steel-normal", T_TEMPLATES + ("closed",)), ("steel-nostat", T_TEMPLATES)],
            "mono-grid": [("steel-normal", Q_TEMPLATES)],
            "mono-star": [("steel-normal", O_TEMPLATES), ("alu-lognormal", Q_TEMPLATES), ("cast-blanket", O_TEMPLATES)],
            "mono-ladder": [("steel-normal", T_TEMPLATES), ("alu-lognormal", Q_TEMPLATES), ("cast-blanket", O_TEMPLATES)]}


LIFE = ("P_RAM_lifetime_n_cycles", "P_RAJ_lifetime_n_cycles")
VERDICT = ("P_RAM_is_life_infinite", "P_RAJ_is_life_infinite")
QUANT = tuple("%s_lifetime_N_%s" % (p, q) for p in ("P_RAM", "P_RAJ") for q in ("10", "50", "90"))


def _selections(ratios, tier):
    """ordered selections of the role set: all orders up to size 2 (quick) / 3 (thorough), rotations of the larger ones"""
    full_orders_up_to = 2 if tier == "quick" else 3
    out = []
    for k in range(1, len(ratios) + 1):
        if k <= full_orders_up_to:
            out += list(itertools.permutations(ratios, k))
        else:
            for comb in itertools.combinations(ratios, k):
                out += [comb[i:] + comb[:i] for i in range(k)]
    # points with the same loads (they differ in G only, or not at all): no maximum over the batch differs from
    # the point's own, so nothing that is shared by design can excuse a difference
    out += [("mid", "mid"), ("mid", "mid", "mid")]
    return out


def bounds(tier):
    q = tier == "quick"
    plan = _plan(tier)
    used = sorted({t for part in plan.values() for _, ts in part for t in ts}, key=list(TEMPLATES).index)
    return {
        "templates": {k: TEMPLATES[k] for k in used},
        "parameter_sets": {k: {kk: vv for kk, vv in PARAMS[k].items()} for k in sorted({ps for part in plan.values() for ps, _ in part})},
        "batch": {"parameter_set x templates": plan["batch"],
                  "ratios": {t: [_ratio(t, r) for r in (ROLES_Q if q else ROLES_T)] for t in used},
                  "G": ["uniform", "per-point %r" % (G_OF_ROLE,)],
                  "selections": "all orders up to size %d, rotations above, plus (1,1) and (1,1,1)" % (2 if q else 3),
                  "n_selections": len(_selections(ROLES_Q if q else ROLES_T, tier))},
        "batch-with-a-far-higher-loaded-point": "ratios (1, %g), (%g, 1), (near, %g) for every template" % (HUGE, HUGE, HUGE),
        "batch-node-ids": "every selection of >= 2 different ratios again with node ids %r" % (NODE_LABELS,),
        "batch-after": "every such selection again after a batch of other ratios with the same largest one, in one process",
        "batch-enumerated": {"levels": ENUM_LEVELS, "lengths": [4] if q else [4, 5],
                             "sequences": sum(len(zigzags(n)) for n in ((4,) if q else (4, 5))),
                             "ratios": ENUM_RATIOS_Q if q else ENUM_RATIOS_T, "parameter_set": "steel-normal"},
        "refine": {"parameter_set x templates": plan["refine"],
                   "insertions": "repeat / midpoint in every cyclic gap, wrap-around gap on both sides"
                                 + ("" if q else "; plus all pairs of interior insertions for templates of length <= 8 (steel-normal)")},
        "kept N_max_bearable functions (template, repetitions, load factor) x P_A asked ascending, descending, ascending":
            {"cases": NMAX_CASES_Q if q else NMAX_CASES_T, "P_A": NMAX_PA, "parameter_set": "steel-nostat"},
        "mono": {"star through the base point (parameter_set x templates)": plan["mono-star"],
                 "all lines of the grid scale x R_z x P_A": plan["mono-grid"],
                 "fine scale ladder at the base point": plan["mono-ladder"],
                 "scale": SCALES_Q, "fine_scale_ladder": SCALES_T, "R_z": RZ_LIST, "P_A": P_A_LIST},
        "rtol": RTOL,
    }


def prepare(tier):
    build_ext.ensure()


# ---------------------------------------------------------------------------------------------------------------
# calling pyLife
# ---------------------------------------------------------------------------------------------------------------
def _assess(params, loads, ratios=None, g=None, node_ids=None):
    """One call.  ratios None -> single point (plain Series); else a (load_step, node_id) batch.
    g: None (take params['G']), float, or list of per-point values.  Returns dict observable -> list of floats/bools."""
    import pandas as pd
    import pylife.strength.fkm_nonlinear.assessment_nonlinear_standard as A
    p = dict(params)
    if ratios is None:
        ls = pd.Series(np.array(loads, dtype=float))
        if g is not None:
            p["G"] = float(g)
        n = 1
    else:
        n = len(ratios)
        idx = pd.MultiIndex.from_product([range(len(loads)), list(node_ids) if node_ids else range(n)],
                                         names=["load_step", "node_id"])
        # same floating point values as the single runs: load * ratio
        vals = [float(np.float64(l) * np.float64(r)) for l in loads for r in ratios]
        ls = pd.Series(vals, index=idx, dtype=float)
        if g is not None:
            if isinstance(g, (list, tuple)):
                p["G"] = pd.Series([float(x) for x in g], index=pd.Index(list(G_LABELS[:n]), name="anyname"))
            else:
                p["G"] = float(g)
    with contextlib.redirect_stdout(io.StringIO()), warnings.catch_warnings():
        warnings.simplefilter("ignore")
        res = A.perform_fkm_nonlinear_assessment(pd.Series(p), ls, calculate_P_RAM=True, calculate_P_RAJ=True)
    out = {}
    for k in LIFE + VERDICT + QUANT:
        if k in res:
            a = np.atleast_1d(np.asarray(res[k]))
            if a.shape != (n,):
                raise AssertionError("observable %s has shape %r for %d points" % (k, a.shape, n))
            out[k] = [bool(x) for x in a] if k in VERDICT else [float(x) for x in a]
    km = getattr(res.get("assessment_parameters"), "P_RAJ_klass_max", None)
    if km is not None:
        km = np.atleast_1d(np.asarray(km, dtype=float))
        out["_klass_max"] = [float(x) for x in (km if km.shape == (n,) else np.repeat(km[:1], n))]
    return out


def _try(fn, *a, **kw):
    try:
        return fn(*a, **kw), None
    except Exception as e:            # pyLife raising where the property expects a value is a violation
        return None, type(e).__name__ + ": " + str(e)[:200]


def _same(a, b):
    if isinstance(a, bool) or isinstance(b, bool):
        return a == b
    if math.isnan(a) or math.isnan(b):
        return False
    if math.isinf(a) or math.isinf(b):
        return a == b
    return abs(a - b) <= RTOL * max(abs(a), abs(b))


def _scaled(loads, f):
    return [float(np.float64(l) * np.float64(f)) for l in loads]


# ---------------------------------------------------------------------------------------------------------------
# batch independence
# ---------------------------------------------------------------------------------------------------------------
def check_batch(case, cache=None):
    """case: {kind, template, params, gmode, ratios}.  -> (violations, n_calls, nontrivial, outcome)"""
    loads, params = _loads_of(case), PARAMS[case["params"]]
    ratios = [float(r) for r in case["ratios"]]
    per_point = case["gmode"] == "per-point"
    gs = [float(g) for g in case["gs"]] if per_point else None
    calls = 0
    viol = []
    singles = []
    for i, r in enumerate(ratios):
        key = (tuple(loads), case["params"], r, gs[i] if per_point else None)
        if cache is not None and key in cache:
            singles.append(cache[key])
            continue
        s, err = _try(_assess, params, _scaled(loads, r), None, gs[i] if per_point else None)
        calls += 1
        if cache is not None:
            cache[key] = (s, err)
        singles.append((s, err))
    if case.get("after"):
        # an earlier assessment of other points in the same process (its results are not judged here)
        a = case["after"]
        _try(_assess, params, loads, [float(r) for r in a["ratios"]], a.get("gs"), a.get("node_ids"))
        calls += 1
    b, err = _try(_assess, params, loads, ratios, gs, case.get("node_ids"))
    calls += 1
    if err is not None:
        if all(e is None for _, e in singles):
            viol.append(("C10/batch/raises-" + err.split(":")[0], {"error": err}))
        return viol, calls, False, ("raises", err.split(":")[0])
    finite = 0
    for i, (s, serr) in enumerate(singles):
        if serr is not None:
            # the single-point call itself fails: nothing to compare with; reported once per input under its own key
            viol.append(("C10/single/raises-" + serr.split(":")[0], {"ratio": ratios[i], "error": serr}))
            continue
        if not (s["P_RAM_is_life_infinite"][0] and s["P_RAJ_is_life_infinite"][0]):
            finite += 1
        # Loads that sit exactly on an edge of the notch look-up table are put into the class above or below by
        # floating point rounding, and in a batch the FIRST node's rounding decides for all nodes.  This shows in
        # P_RAM already (P_RAM has no other batch-wide quantity); such points are keyed apart.
        edge = on_lut_edge(loads) and not _same(s[LIFE[0]][0], b[LIFE[0]][i])
        for k in LIFE + VERDICT + QUANT:
            if k not in s and k not in b:
                continue
            if k not in s or k not in b:
                viol.append(("C10/batch/%s-missing" % k, {"in_single": k in s, "in_batch": k in b}))
                continue
            if not _same(s[k][0], b[k][i]):
                key = "C10/batch-lut-class-edge" if edge else "C10/batch/" + k
                if not edge and k.startswith("P_RAJ_lifetime") and "_klass_max" in s and "_klass_max" in b \
                        and not _same(s["_klass_max"][0], b["_klass_max"][i]):
                    key = "C10/praj-class-limits-batch-max"
                viol.append((key, {"observable": k, "point": i, "ratio": ratios[i], "single": s[k][0], "batch": b[k][i],
                                   "klass_max_single": s.get("_klass_max", [None])[0],
                                   "klass_max_batch": b.get("_klass_max", [None] * len(ratios))[i]}))
    nontrivial = len(ratios) >= 2 and (len(set(ratios)) >= 2 or per_point) and finite >= 1
    outcome = tuple((k, tuple(_r(x) for x in b[k])) for k in LIFE + VERDICT if k in b)
    return _first_per_key(viol), calls, nontrivial, outcome


def _r(x):
    if isinstance(x, bool):
        return x
    return float("%.10g" % x) if math.isfinite(x) else repr(x)


def _first_per_key(viol):
    seen, out = set(), []
    for k, d in viol:
        if k not in seen:
            seen.add(k)
            out.append((k, d))
    return out


# ---------------------------------------------------------------------------------------------------------------
# refinement by non-reversal samples / repeated values
# ---------------------------------------------------------------------------------------------------------------
def insertions(loads):
    """[(where, pos, kind)]: refine gap (loads[i], loads[i+1]) for i < n-1 ('interior'), the wrap-around gap behind
    the last sample ('append') and in front of the first ('prepend')."""
    n = len(loads)
    out = []
    for i in range(n - 1):
        for kind in ("repeat", "midpoint"):
            if kind == "midpoint" and loads[i] == loads[i + 1]:
                continue                      # midpoint of a plateau is the repeat
            out.append(("interior", i, kind))
    for where in ("append", "prepend"):
        for kind in ("repeat", "midpoint"):
            if kind == "midpoint" and loads[-1] == loads[0]:
                continue
            out.append((where, n - 1 if where == "append" else 0, kind))
    return out


def apply_insertion(loads, where, pos, kind):
    loads = [float(x) for x in loads]
    if where == "interior":
        new = loads[pos] if kind == "repeat" else 0.5 * (loads[pos] + loads[pos + 1])
        return loads[:pos + 1] + [new] + loads[pos + 1:]
    mid = 0.5 * (loads[-1] + loads[0])
    if where == "append":
        return loads + [loads[-1] if kind == "repeat" else mid]
    return [loads[0] if kind == "repeat" else mid] + loads


def check_refine(case, cache=None):
    """case: {kind, template, params, insertions: [[where,pos,kind], ...]} (one or two insertions)."""
    loads, params = TEMPLATES[case["template"]], PARAMS[case["params"]]
    calls = 0
    key = (case["template"], case["params"])
    if cache is not None and key in cache:
        base, berr = cache[key]
    else:
        base, berr = _try(_assess, params, loads)
        calls += 1
        if cache is not None:
            cache[key] = (base, berr)
    seq = [float(x) for x in loads]
    ins = [tuple(x) for x in case["insertions"]]
    for where, pos, kind in ins:
        if where == "prepend" and kind == "midpoint":
            mid = 0.5 * (seq[-1] + seq[0])
            if not (min(0.0, seq[0]) <= mid <= max(0.0, seq[0])):
                # the first pass starts at load 0: a sample in front of the first one that does not lie between 0
                # and the first sample IS a reversal of the first pass - the property does not speak about it
                return [], calls, False, ("excluded", "prepended midpoint is a reversal of the first pass")
    # interior insertions from the back so that positions stay valid, then the ones at the ends
    for where, pos, kind in sorted([i for i in ins if i[0] == "interior"], key=lambda t: -t[1]) + [i for i in ins if i[0] != "interior"]:
        seq = apply_insertion(seq, where, pos, kind)
    r, err = _try(_assess, params, seq)
    calls += 1
    tag = _refine_tag(case["insertions"])
    viol = []
    if berr is not None:
        viol.append(("C10/single/raises-" + berr.split(":")[0], {"error": berr}))
        return viol, calls, False, ("raises",)
    if err is not None:
        viol.append(("C10/%s/raises-%s" % (tag, err.split(":")[0]), {"error": err, "sequence": seq}))
        return viol, calls, False, ("raises", err.split(":")[0])
    for k in LIFE + VERDICT + QUANT:
        if k in base and k in r and not _same(base[k][0], r[k][0]):
            viol.append(("C10/%s/%s" % (tag, "P_RAM" if k.startswith("P_RAM") else "P_RAJ"),
                         {"observable": k, "template": base[k][0], "refined": r[k][0], "sequence": seq}))
    nontrivial = math.isfinite(base[LIFE[0]][0]) and math.isfinite(base[LIFE[1]][0]) \
        and not (base[VERDICT[0]][0] and base[VERDICT[1]][0])
    outcome = (tag,) + tuple(_r(r[k][0]) for k in LIFE + VERDICT)
    return _first_per_key(viol), calls, nontrivial, outcome


def _refine_tag(ins):
    """junction refinements (sample placed at the pass-1/pass-2 border) are keyed apart from interior ones"""
    j = [(w, k) for w, p, k in ins if w != "interior"]
    if j:
        return "refinement-junction-%s-%s" % j[0]
    kinds = sorted({k for w, p, k in ins})
    return "refinement-interior-" + "+".join(kinds)


# ---------------------------------------------------------------------------------------------------------------
# monotonicity along grid lines, ordering of the reported quantiles
# ---------------------------------------------------------------------------------------------------------------
def on_lut_edge(loads):
    """True if a load or a load range of the sequence sits exactly on an edge of the 100-class look-up table."""
    m = max(abs(x) for x in loads)
    vals = {abs(x) for x in loads} | {abs(a - b) for a in loads for b in loads}
    for v in vals:
        if v in (0, m, 2 * m):
            continue
        k = v * 100.0 / m
        if abs(k - round(k)) < 1e-9:
            return True
    return False


def check_line(case):
    """case: {kind:'mono', template, params, axis, values, fixed:{scale,R_z,P_A}}; values ordered so that the lifetime
    must not increase (scale up, R_z up, P_A down)."""
    loads, params = TEMPLATES[case["template"]], dict(PARAMS[case["params"]])
    axis, values, fixed = case["axis"], case["values"], case["fixed"]
    viol, res = [], []
    for v in values:
        co = dict(fixed)
        co[axis] = v
        p = dict(params)
        p["R_z"], p["P_A"] = co["R_z"], co["P_A"]
        r, err = _try(_assess, p, _scaled(loads, co["scale"]))
        if err is not None:
            viol.append(("C10/monotone-%s/raises-%s" % (axis, err.split(":")[0]), {"value": v, "error": err}))
        res.append(r)
    calls_extra = [0]
    edge = axis == "scale" and on_lut_edge(loads)
    ax = "scale-lut-class-edge" if edge else axis
    for fam, lk, vk in (("P_RAM", LIFE[0], VERDICT[0]), ("P_RAJ", LIFE[1], VERDICT[1])):
        for i in range(len(values)):
            for j in range(i + 1, len(values)):
                a, b = res[i], res[j]
                if a is None or b is None:
                    continue
                la, lb = a[lk][0], b[lk][0]
                if math.isnan(la) or math.isnan(lb):
                    viol.append(("C10/monotone-%s/%s-lifetime-nan" % (axis, fam), {"at": [values[i], values[j]], "lifetimes": [la, lb]}))
                elif lb > la * (1 + RTOL):
                    key = "C10/monotone-%s/%s-lifetime" % (ax, fam)
                    detail = {"milder": values[i], "harsher": values[j], "lifetime_milder": la, "lifetime_harsher": lb}
                    if fam == "P_RAJ" and not edge and key not in [k for k, _ in viol]:
                        # is it the coarseness of the guideline's 200 P_RAJ classes?  repeat the pair with 5000 classes
                        fine = []
                        for v in (values[i], values[j]):
                            co = dict(fixed)
                            co[axis] = v
                            p = dict(params)
                            p["R_z"], p["P_A"], p["n_bins"] = co["R_z"], co["P_A"], 5000
                            r5, err = _try(_assess, p, _scaled(loads, co["scale"]))
                            calls_extra[0] += 1
                            fine.append(None if r5 is None else r5[lk][0])
                        detail["lifetimes_with_5000_classes"] = fine
                        if None not in fine and not fine[1] > fine[0] * (1 + RTOL):
                            key += "-class-discretisation"
                    viol.append((key, detail))
                if b[vk][0] and not a[vk][0]:
                    viol.append(("C10/monotone-%s/%s-verdict" % (ax, fam),
                                 {"milder": values[i], "harsher": values[j], "infinite_milder": a[vk][0], "infinite_harsher": b[vk][0]}))
    nq = 0
    for v, r in zip(values, res):
        if r is None:
            continue
        for fam in ("P_RAM", "P_RAJ"):
            ks = ["%s_lifetime_N_%s" % (fam, q) for q in ("10", "50", "90")]
            if all(k in r for k in ks):
                nq += 1
                n10, n50, n90 = (r[k][0] for k in ks)
                if not (n10 <= n50 * (1 + RTOL) and n50 <= n90 * (1 + RTOL)):
                    viol.append(("C10/N-quantile-order/" + fam, {"at": v, "N_10": n10, "N_50": n50, "N_90": n90}))
    lifes = {_r(r[LIFE[0]][0]) for r in res if r is not None and math.isfinite(r[LIFE[0]][0])}
    nontrivial = len(lifes) >= 2
    outcome = (axis,) + tuple(tuple(_r(r[k][0]) for k in LIFE + VERDICT) if r is not None else None for r in res)
    return _first_per_key(viol), len(values) + calls_extra[0], nontrivial, outcome, nq


def _lines(tier):
    plan = _plan(tier)
    out = []

    def add(t, ps, axis, vals, fx):
        out.append({"kind": "mono", "template": t, "params": ps, "axis": axis, "values": list(vals),
                    "fixed": {k: v for k, v in fx.items() if k != axis}})

    axes = (("scale", SCALES_Q), ("R_z", RZ_LIST), ("P_A", P_A_LIST))
    for ps, ts in plan["mono-star"]:
        for t in ts:
            base = {"scale": 1.0, "R_z": PARAMS[ps]["R_z"], "P_A": PARAMS[ps]["P_A"]}
            for axis, vals in axes:
                add(t, ps, axis, vals, base)
    for ps, ts in plan["mono-grid"]:
        for t in ts:
            grid = [{"scale": sc, "R_z": z, "P_A": p} for sc in SCALES_Q for z in RZ_LIST for p in P_A_LIST]
            for axis, vals in axes:
                for g in grid:
                    if g[axis] == vals[0]:
                        add(t, ps, axis, vals, g)
    for ps, ts in plan["mono-ladder"]:
        for t in ts:
            add(t, ps, "scale", SCALES_T, {"R_z": PARAMS[ps]["R_z"], "P_A": PARAMS[ps]["P_A"]})
    return out


# ---------------------------------------------------------------------------------------------------------------
# the lifetime-for-failure-probability functions handed out by an assessment
# ---------------------------------------------------------------------------------------------------------------
NMAX_PA = (1e-6, 1e-4, 1e-2, 0.1, 0.5, 0.9)
# (template, repetitions, load factor): long enough that for small failure probabilities the damage sum reaches one within
# the two HCM passes while for large ones it does not (N_1ppm ~ 50 cycles, N_50 ~ 500 cycles, 160 samples)
NMAX_CASES_Q = [("guideline", 20, 3.0)]
NMAX_CASES_T = [("guideline", 20, 3.0), ("guideline", 20, 2.0), ("nested", 16, 3.0), ("guideline", 42, 3.0)]


def check_nmax(case):
    """One assessment; its P_RAM_/P_RAJ_N_max_bearable functions are kept and asked in ascending, descending and again
    ascending order of the failure probability.  The answer for a probability must not depend on what was asked before,
    a smaller probability never gives a longer life, and the reported N_10/50/90 are the function's values."""
    import pandas as pd
    import pylife.strength.fkm_nonlinear.assessment_nonlinear_standard as A
    loads = [float(np.float64(x) * np.float64(case["scale"])) for x in TEMPLATES[case["template"]]] * int(case["repeat"])
    viol, calls = [], 1
    try:
        with contextlib.redirect_stdout(io.StringIO()), warnings.catch_warnings():
            warnings.simplefilter("ignore")
            res = A.perform_fkm_nonlinear_assessment(pd.Series(dict(PARAMS[case["params"]])), pd.Series(loads, dtype=float),
                                                     calculate_P_RAM=True, calculate_P_RAJ=True)
            out = {}
            for prm in ("P_RAM", "P_RAJ"):
                f = res.get(prm + "_N_max_bearable")
                if f is None:
                    continue
                seqs = []
                for order in (NMAX_PA, tuple(reversed(NMAX_PA)), NMAX_PA):
                    seqs.append({p: float(np.asarray(f(p), dtype=float).reshape(-1)[0]) for p in order})
                    calls += len(order)
                out[prm] = seqs
                rep = {q: float(np.asarray(res["%s_lifetime_N_%s" % (prm, q)], dtype=float).reshape(-1)[0]) for q in ("10", "50", "90")}
                asc, desc, asc2 = seqs
                if any(not _same(asc[p], desc[p]) or not _same(asc[p], asc2[p]) for p in NMAX_PA):
                    viol.append(("C10/N_max_bearable/%s/answer-depends-on-earlier-questions" % prm,
                                 {"P_A": NMAX_PA, "ascending": [asc[p] for p in NMAX_PA], "descending": [desc[p] for p in NMAX_PA],
                                  "ascending_again": [asc2[p] for p in NMAX_PA]}))
                for seq, name in ((asc, "ascending"), (desc, "descending")):
                    vals = [seq[p] for p in NMAX_PA]
                    if any(vals[i] > vals[i + 1] * (1 + RTOL) for i in range(len(vals) - 1)):
                        viol.append(("C10/N_max_bearable/%s/smaller-failure-probability-gives-longer-life" % prm,
                                     {"P_A": NMAX_PA, "asked_in_order": name, "lifetimes": vals}))
                        break
                if any(not _same(rep[q], asc[pq]) for q, pq in (("10", 0.1), ("50", 0.5), ("90", 0.9))):
                    viol.append(("C10/N_max_bearable/%s/reported-quantile-differs-from-the-function" % prm,
                                 {"reported N_10/50/90": rep, "function at 0.1/0.5/0.9": [asc[0.1], asc[0.5], asc[0.9]]}))
    except Exception as e:                       # noqa: BLE001
        return [("C10/N_max_bearable/raises-" + type(e).__name__, {"error": str(e)[:200]})], calls, False, ("raises",), 0
    spread = any(len({round(v, 6) for v in s_[0].values()}) > 1 for s_ in out.values())
    outcome = tuple((k, tuple(_r(v[0][p]) for p in NMAX_PA)) for k, v in sorted(out.items()))
    return _first_per_key(viol), calls, spread, outcome, 0


# ---------------------------------------------------------------------------------------------------------------
# shards
# ---------------------------------------------------------------------------------------------------------------
def shards(tier):
    q = tier == "quick"
    plan = _plan(tier)
    out = []
    # batch: one shard per (template, parameter set, G mode, selection size) - singles are cached inside a shard
    sel = _selections(ROLES_Q if q else ROLES_T, tier)
    for ps, ts in plan["batch"]:
        for t in ts:
            for gmode in ("uniform", "per-point"):
                for size in sorted({len(x) for x in sel}):
                    cases = []
                    for roles in sel:
                        if len(roles) != size:
                            continue
                        case = {"kind": "batch", "template": t, "params": ps, "gmode": gmode, "ratios": [_ratio(t, r) for r in roles]}
                        if gmode == "per-point":
                            equal = len(set(roles)) == 1 and len(roles) > 1
                            case["gs"] = [G_BY_POSITION[i] if equal else G_OF_ROLE[r] for i, r in enumerate(roles)]
                        cases.append(case)
                    for i in range(0, len(cases), 8):
                        out.append(cases[i:i + 8])
    # the same selections with node ids that are not ascending, and after an assessment of other points in the
    # same process (same number of points, same largest maximum)
    for ps, ts in plan["batch"]:
        for t in ts:
            cases = []
            for roles in sel:
                if len(roles) < 2 or len(set(roles)) < 2:
                    continue
                base = {"kind": "batch", "template": t, "params": ps, "gmode": "uniform", "ratios": [_ratio(t, r) for r in roles]}
                cases.append(dict(base, node_ids=list(NODE_LABELS[:len(roles)])))
                others = [o for o in sel if len(o) == len(roles) and o != roles and len(set(o)) == len(o)
                          and max(_ratio(t, r) for r in o) == max(base["ratios"])]
                for o in others[:2]:
                    cases.append(dict(base, after={"ratios": [_ratio(t, r) for r in o]}))
            for i in range(0, len(cases), 8):
                out.append(cases[i:i + 8])
    # a co-assessed point loaded far beyond the others (pseudo-elastic maximum above 1000 MPa)
    for ps, ts in plan["batch"]:
        cases = [{"kind": "batch", "template": t, "params": ps, "gmode": "uniform", "ratios": r}
                 for t in ts for r in ([1.0, HUGE], [HUGE, 1.0], [_ratio(t, "near"), HUGE])]
        for i in range(0, len(cases), 6):
            out.append(cases[i:i + 6])
    # enumerated short sequences
    for n in ((4,) if q else (4, 5)):
        cases = [{"kind": "batch", "loads": z, "params": "steel-normal", "gmode": "uniform", "ratios": list(r)}
                 for z in zigzags(n) for r in (ENUM_RATIOS_Q if q else ENUM_RATIOS_T)]
        for i in range(0, len(cases), 24):
            out.append(cases[i:i + 24])
    # refinement
    for ps, ts in plan["refine"]:
        for t in ts:
            ins = insertions(TEMPLATES[t])
            cases = [{"kind": "refine", "template": t, "params": ps, "insertions": [list(i)]} for i in ins]
            if not q and ps == "steel-normal" and len(TEMPLATES[t]) <= 8:
                inter = [i for i in ins if i[0] == "interior"]
                cases += [{"kind": "refine", "template": t, "params": ps, "insertions": [list(a), list(b)]}
                          for a, b in itertools.combinations(inter, 2) if a[1] != b[1]]
            for i in range(0, len(cases), 8):
                out.append(cases[i:i + 8])
    # monotone lines
    for line in _lines(tier):
        out.append([line])
    # kept lifetime functions
    for t, rep, sc in (NMAX_CASES_Q if q else NMAX_CASES_T):
        out.insert(0, [{"kind": "nmax", "template": t, "repeat": rep, "scale": sc, "params": "steel-nostat"}])
    return out


def _run_case(case, cache):
    if case["kind"] == "batch":
        v, c, nt, oc = check_batch(case, cache)
        return v, c, nt, oc, 0
    if case["kind"] == "refine":
        v, c, nt, oc = check_refine(case, cache)
        return v, c, nt, oc, 0
    if case["kind"] == "nmax":
        return check_nmax(case)
    return check_line(case)


def run_shard(shard):
    prepare(None)
    acc = Acc()
    cache = {}
    for case in shard:
        acc.cases += 1
        viol, calls, nontrivial, outcome, nq = _run_case(case, cache)
        acc.evaluations += calls
        acc.count("cases_" + case["kind"])
        acc.count("calls_" + case["kind"], calls)
        if nq:
            acc.count("quantile_triples_checked", nq)
        if outcome and outcome[0] == "excluded":
            acc.count("excluded: " + outcome[1])
        if nontrivial:
            acc.nontrivial += 1
            acc.count("nontrivial_" + case["kind"])
            if not acc.samples:
                acc.sample({"case": case, "outcome": outcome})
        acc.outcome(outcome)
        for key, detail in viol:
            acc.violation(key, case, detail)
    return acc


def replay(case):
    viol = _run_case(case, None)[0]
    return viol
