"""C19 - mesh operators are exact on linear fields and respect mesh connectivity.

Four enumerated families, all executed on the real accessors:

  gradient   Gradient (least squares) and Gradient3D (shape functions) on hexahedral blocks and their conforming
             5-/6-tetrahedra decompositions x perturbation pattern x node numbering x element numbering x row order
             x linear field:  gradient == c at every node, index == the node ids
  mapping    Meshmapper: a block's nodal field onto the same points (identity), a linear field onto cell centroids
             and an interior lattice
  surface    Surface3D.is_at_surface on hexahedral blocks == nodes on the block boundary
  hotspot    HotSpot.calc on every small element-node incidence structure x every value assignment x threshold
             fraction == union-find reference (components under shared node / shared element, by descending peak)
"""
import itertools
import warnings

import numpy as np

from mc.explore import Acc, chunked
from mc.refs import meshes as M

warnings.filterwarnings("ignore", category=SyntaxWarning)

ID = "C19"
LEVEL = "exploration"
RULE = ("gradient: every (element kind, block dims, perturbation, node numbering, element numbering, row order, "
        "operator) of the stated menus is one case evaluated on every field of the tier's field list; mapping: every "
        "(dims, perturbation, source layout, target set, field); surface: every (dims, perturbation, numberings, row "
        "order); hotspot: every (incidence structure up to node relabelling, id/row-order variant, value assignment "
        "over {1,2,3}, limit_frac).  non-trivial = gradient/mapping/surface case on a perturbed mesh or with a "
        "non-identity numbering or row order; hotspot case with >= 2 entries above the threshold and (>= 2 components "
        "or an entry below the threshold)")
ASSUMPTIONS = [
    "exactness of an operator on linear fields is decided per mesh/numbering/row-order configuration; fields enter "
    "linearly, so the full 64-field menu is run on the plain configurations and a small field list on every other one",
    "blocks (unit or anisotropic 0.5 x 2 x 1.25 cells) are perturbed by a fixed offset table (max 7 % of the cell size); non-degeneracy (positive corner Jacobians "
    "/ tetra volumes) is asserted by the reference for every mesh used",
    "scipy.interpolate.griddata (Qhull) is part of the executed system",
    "hot-spot labels of components with equal peak value may come in any order (idxmax picks the first row)",
]

C_MENU = (-3.0, 0.0, 0.5, 2.0)
C0 = 1.0
FIELDS_FEW = ((2.0, -3.0, 0.5), (0.0, 0.0, 2.0))
FIELDS_ALL = tuple(itertools.product(C_MENU, repeat=3))
# perturbation = (amplitude in cell units, shift into the offset table, spacing id: 0 unit cells, 1 = (0.5, 2, 1.25))
PERTS_ALL = ((0.0, 0, 0), (0.0, 0, 1)) + tuple((1.0, s, s % 2) for s in range(5))
DIMS2 = tuple(itertools.product((1, 2), repeat=3))
DIMS3 = tuple(itertools.product((1, 2, 3), repeat=3))
FRACS = (0.5, 0.75, 1.0)
SCALES = (2.0 ** -10, 2.0 ** 10)          # cell sizes ~1e-3 and ~1e3 (exact dyadic scaling of the coordinates)
CHAINS = {
    "chain4": ((1, 2), (2, 3), (3, 4), (4, 5)),
    "fork3": ((1, 2), (1, 3), (1, 4)),
    "tri-chain": ((1, 2, 3), (3, 4, 5), (5, 6)),
}


def _tier(tier):
    if tier == "quick":
        return {
            "gradient": {"kinds": ("hex", "tet5", "tet6", "hextet"), "dims": ((1, 1, 1), (2, 1, 1), (2, 2, 2)),
                         "perts": ((0.0, 0, 0), (1.0, 1, 1), (1.0, 3, 0)), "node_numberings": M.NUMBERINGS,
                         "element_numberings": ("identity", "times10plus5", "reversed"),
                         "row_orders(Gradient3D)": ("given", "reversed_blocks", "interleaved"),
                         "row_orders(Gradient)": ("given", "reversed_blocks", "interleaved", "shuffled"),
                         "fields": FIELDS_FEW,
                         "field_sweep": {"kinds": ("hex", "tet5", "tet6"), "dims": ((1, 1, 1), (2, 1, 2)),
                                         "perts": ((1.0, 2, 1),), "fields": FIELDS_ALL}},
            "mapping": {"dims": ((1, 1, 1), (2, 1, 1), (2, 2, 2)), "perts": ((0.0, 0, 0), (1.0, 1, 1), (1.0, 4, 0)),
                        "fields": FIELDS_FEW + ((0.0, 0.0, 0.0),)},
            "surface": {"dims": ((1, 1, 1), (2, 2, 2), (3, 1, 2), (3, 3, 3)), "perts": ((0.0, 0, 0), (0.0, 0, 1), (1.0, 1, 1), (1.0, 3, 0)),
                        "node_numberings": M.NUMBERINGS, "element_numberings": ("identity", "times10plus5", "reversed"),
                        "row_orders": ("given", "interleaved", "shuffled")},
            "hotspot": {"max_elements": 2, "values": (1, 2, 3), "fracs": FRACS, "variants_small": ("plain", "gaps-reversed-rows"),
                        "chains": {"values": (1, 3), "variants": ("plain", "gaps-reversed-rows", "interleaved")}},
        }
    return {
        "gradient": {"kinds": ("hex", "tet5", "tet6", "hextet"), "dims": DIMS2,
                     "perts": ((0.0, 0, 0), (1.0, 0, 1), (1.0, 2, 0)), "node_numberings": M.NUMBERINGS,
                     "element_numberings": M.NUMBERINGS,
                     "row_orders(Gradient3D)": ("given", "reversed_blocks", "interleaved"),
                     "row_orders(Gradient)": ("given", "reversed_blocks", "interleaved", "shuffled"),
                     "fields": FIELDS_FEW,
                     "field_sweep": {"kinds": ("hex", "tet5", "tet6"), "dims": DIMS2,
                                     "perts": ((1.0, 1, 1), (1.0, 3, 0), (1.0, 4, 1)), "fields": FIELDS_ALL}},
        "mapping": {"dims": DIMS2, "perts": PERTS_ALL, "fields": FIELDS_ALL, "fields_other_sources": FIELDS_FEW},
        "surface": {"dims": DIMS3, "perts": PERTS_ALL, "node_numberings": M.NUMBERINGS,
                    "element_numberings": ("identity", "times10plus5", "reversed"),
                    "row_orders": ("given", "interleaved", "shuffled")},
        "hotspot": {"max_elements": 3, "max_rows_full_alphabet": 7, "values_above": (1, 2), "max_rows_variants": 7, "values": (1, 2, 3), "fracs": FRACS,
                    "variants_small": ("plain", "gaps-reversed-rows", "interleaved"),
                    "variants_7_rows": ("plain", "gaps-reversed-rows"),
                    "chains": {"values": (1, 2, 3), "values_variants": (1, 3),
                               "variants": ("plain", "gaps-reversed-rows", "interleaved")}},
    }


def bounds(tier):
    t = _tier(tier)
    t["offset_table"] = M.OFFSETS
    t["cell_spacings"] = M.SPACINGS
    t["c0"] = C0
    t["tolerances"] = {"gradient atol": "1e-9 * max(1, max|c|)", "mapping identity": "1e-12 * max(1, max|f|)",
                       "mapping linear": "1e-9 * max(1, max|f|)"}
    t["hotspot"]["fixed_structures"] = CHAINS
    return t


# --------------------------------------------------------------------------------------------------- frames
def mesh_frame(kind, dims, pert, nnum, enum, order):
    """-> (DataFrame indexed (element_id, node_id) with x,y,z; {assigned node id: natural id}; boundary (assigned ids))"""
    import pandas as pd
    nodes, els, bnd = M.block(kind, tuple(dims), pert[0], pert[1], pert[2])
    if not M.non_degenerate(nodes, els):
        raise AssertionError("reference mesh degenerate: %r" % ((kind, dims, pert),))
    nm = M.numbering(nnum, len(nodes))
    em = M.numbering(enum, len(els))
    rows = M.rows_of(els, order)
    df = pd.DataFrame({"element_id": [em[e] for e, _ in rows], "node_id": [nm[n] for _, n in rows],
                       "x": [nodes[n][0] for _, n in rows], "y": [nodes[n][1] for _, n in rows],
                       "z": [nodes[n][2] for _, n in rows]}).set_index(["element_id", "node_id"])
    return df, {nm[n]: n for n in nodes}, set(nm[n] for n in bnd)


def _field(df, c):
    return C0 + c[0] * df["x"] + c[1] * df["y"] + c[2] * df["z"]


# --------------------------------------------------------------------------------------------------- gradient
def check_gradient(case):
    """case: {family:'gradient', op, kind, dims, pert, nnum, enum, order, fields}"""
    import pylife.mesh  # noqa: F401
    df, back, _ = mesh_frame(case["kind"], case["dims"], case["pert"], case["nnum"], case["enum"], case["order"])
    scale = float(case.get("scale", 1.0))       # length unit of the mesh ("any non-degenerate mesh": also millimetre-sized cells in metres)
    if scale != 1.0:
        df[["x", "y", "z"]] = df[["x", "y", "z"]] * scale
    op = case["op"]
    # Gradient addresses rows by node id: ids that are not 1..N are their own input class (own key)
    cls = "" if op != "Gradient" or case["nnum"] in ("identity", "reversed", "derangement") else "/node-ids-not-1..N"
    viol, outcome = [], []
    for c in case["fields"]:
        df["f"] = _field(df, c)
        try:
            with warnings.catch_warnings():
                warnings.simplefilter("ignore")
                g = getattr(df, "gradient" if op == "Gradient" else "gradient_3D").gradient_of("f")
        except Exception as e:                       # noqa: BLE001
            viol.append(("C19/%s%s/raises-%s" % (op, cls, type(e).__name__), {"field": list(c), "msg": str(e)[:200]}))
            outcome.append("raise")
            break
        cols = ["df_dx", "df_dy", "df_dz"]
        if list(g.columns) != cols or g.index.name != "node_id" or sorted(g.index) != sorted(back) or g.index.has_duplicates:
            viol.append(("C19/%s%s/index" % (op, cls), {"field": list(c), "index": list(g.index)[:40], "columns": list(g.columns),
                                                       "expected_nodes": sorted(back)[:40]}))
            outcome.append("index")
            break
        err = float(np.nanmax(np.abs(g[cols].to_numpy(dtype=float) - np.array(c))))
        bad = not np.isfinite(g[cols].to_numpy(dtype=float)).all() or err > 1e-9 * max(1.0, max(abs(x) for x in c))
        if bad:
            worst = g[cols].sub(np.array(c)).abs().max(axis=1).idxmax()
            viol.append(("C19/%s%s/wrong-gradient" % (op, cls), {"field": list(c), "max_abs_error": err, "node": int(worst),
                                                                "got": g.loc[worst].tolist()}))
            outcome.append("wrong")
            break
        outcome.append("ok")
    if not viol:
        # one kept accessor object: asked, then the nodes of the same frame are moved in place (anisotropic stretch;
        # index object and row order untouched), then asked again - the mesh it must answer for is the moved one
        c = case["fields"][0]
        try:
            with warnings.catch_warnings():
                warnings.simplefilter("ignore")
                acc = getattr(df, "gradient" if op == "Gradient" else "gradient_3D")
                df["f"] = _field(df, c)
                acc.gradient_of("f")
                df["x"] = df["x"] * 1.5 + 0.25 * df["y"]
                df["y"] = df["y"] * 0.75
                df["z"] = df["z"] * 1.25 + 0.125
                df["f"] = _field(df, c)
                g = acc.gradient_of("f")
            cols = ["df_dx", "df_dy", "df_dz"]
            err = float(np.nanmax(np.abs(g[cols].to_numpy(dtype=float) - np.array(c))))
            if not np.isfinite(g[cols].to_numpy(dtype=float)).all() or err > 1e-9 * max(1.0, max(abs(x) for x in c)):
                viol.append(("C19/%s%s/kept-accessor-after-moving-the-nodes/wrong-gradient" % (op, cls),
                             {"field": list(c), "max_abs_error": err}))
                outcome.append("kept-wrong")
            else:
                outcome.append("kept-ok")
        except Exception as e:                       # noqa: BLE001
            viol.append(("C19/%s%s/kept-accessor-after-moving-the-nodes/raises-%s" % (op, cls, type(e).__name__), {"msg": str(e)[:200]}))
            outcome.append("kept-raise")
    return viol, outcome


def _gradient_cases(t):
    g = t["gradient"]
    sweep = g["field_sweep"]
    for kind in sweep["kinds"]:
        for dims in sweep["dims"]:
            for pert in sweep["perts"]:
                for op in ("Gradient3D", "Gradient"):
                    yield {"family": "gradient", "op": op, "kind": kind, "dims": list(dims), "pert": list(pert),
                           "nnum": "identity", "enum": "identity", "order": "given", "fields": [list(c) for c in sweep["fields"]]}
                    for scale in SCALES:
                        yield {"family": "gradient", "op": op, "kind": kind, "dims": list(dims), "pert": list(pert), "scale": scale,
                               "nnum": "times10plus5", "enum": "identity", "order": "given", "fields": [list(c) for c in FIELDS_FEW]}
    for kind in g["kinds"]:
        for dims in g["dims"]:
            for pert in g["perts"]:
                for nnum in g["node_numberings"]:
                    for enum in g["element_numberings"]:
                        for op in ("Gradient3D", "Gradient"):
                            for order in g["row_orders(%s)" % op]:
                                yield {"family": "gradient", "op": op, "kind": kind, "dims": list(dims), "pert": list(pert),
                                       "nnum": nnum, "enum": enum, "order": order, "fields": [list(c) for c in g["fields"]]}


# --------------------------------------------------------------------------------------------------- mapping
def check_mapping(case):
    """case: {family:'mapping', dims, pert, source: 'nodes'|'mesh-rows'|'nodes-shuffled', target, field}"""
    import pandas as pd
    import pylife.mesh  # noqa: F401
    dims, pert = case["dims"], case["pert"]
    df, _, _ = mesh_frame("hex", dims, pert, "times10plus5", "identity", "given")
    nodal = df.groupby("node_id").first()
    if case["source"] == "mesh-rows":
        src = df.copy()
    elif case["source"] == "nodes-shuffled":
        src = nodal.iloc[[(3 + 7 * i) % len(nodal) for i in range(len(nodal))]] if len(nodal) % 7 else nodal.iloc[::-1]
    else:
        src = nodal
    c = case["field"]
    linear = c != "nonlinear"
    if linear:
        fun = lambda d: C0 + c[0] * d["x"] + c[1] * d["y"] + c[2] * d["z"]          # noqa: E731
    else:
        fun = lambda d: 1.0 + d["x"] * d["y"] - 2.0 * d["z"] ** 2 + 0.5 * d["x"]      # noqa: E731
    src = src.assign(f=fun(src))
    nx, ny, nz = dims
    if case["target"] == "same":
        tgt = nodal[["x", "y", "z"]]
    elif case["target"] == "centroids":
        tgt = df[["x", "y", "z"]].groupby("element_id").mean()
    else:
        h = M.SPACINGS[pert[2]]
        zs = (0.25, 0.5, 0.75) if case["target"] == "lattice" else (0.4,)       # 'plane' / 'single': all targets share one z
        ab = (0.25, 0.5, 0.75) if case["target"] != "single" else (0.3,)
        pts = [(nx * a * h[0], ny * b * h[1], nz * cc * h[2]) for a in ab for b in ab for cc in zs]
        tgt = pd.DataFrame(pts, columns=["x", "y", "z"], index=pd.Index(range(500, 500 + len(pts)), name="point"))
    # column order of the caller's frames ("arbitrary mesh": coordinates are addressed by name, not by position)
    cols = case.get("columns", "xyz")
    if cols in ("source-fzyx", "both"):
        src = src[["f", "z", "y", "x"] + [k for k in src.columns if k not in ("f", "x", "y", "z")]]
    if cols in ("target-zxy", "both"):
        tgt = tgt[["z", "x", "y"]]
    try:
        with warnings.catch_warnings():
            warnings.simplefilter("ignore")
            res = tgt.meshmapper.process(src, "f")
    except Exception as e:                       # noqa: BLE001
        return [("C19/Meshmapper/raises-%s" % type(e).__name__, {"msg": str(e)[:200]})], "raise"
    if list(res.columns) != ["f"] or not res.index.equals(tgt.index):
        return [("C19/Meshmapper/index", {"index": list(res.index)[:30], "expected": list(tgt.index)[:30]})], "index"
    exp = fun(tgt).to_numpy(dtype=float)
    got = res["f"].to_numpy(dtype=float)
    scale = max(1.0, float(np.max(np.abs(exp))))
    tol = (1e-12 if case["target"] == "same" else 1e-9) * scale
    err = np.abs(got - exp)
    if not np.isfinite(got).all() or float(err.max()) > tol:
        i = int(np.nanargmax(np.where(np.isfinite(err), err, np.inf)))
        key = "C19/Meshmapper/identity" if case["target"] == "same" else "C19/Meshmapper/linear-field"
        return [(key, {"point": tgt.iloc[i].tolist(), "got": float(got[i]), "expected": float(exp[i])})], "wrong"
    return [], "ok"


def _mapping_cases(t):
    m = t["mapping"]
    for dims in m["dims"]:
        for pert in m["perts"]:
            for source in ("nodes", "nodes-shuffled", "mesh-rows"):
                for target in ("same", "centroids", "lattice", "plane", "single"):
                    fl = m["fields"] if source == "nodes" else m.get("fields_other_sources", m["fields"])
                    fields = [list(c) for c in fl] + (["nonlinear"] if target == "same" else [])
                    for c in fields:
                        yield {"family": "mapping", "dims": list(dims), "pert": list(pert), "source": source,
                               "target": target, "field": c}
                    for cols in ("source-fzyx", "target-zxy", "both"):
                        yield {"family": "mapping", "dims": list(dims), "pert": list(pert), "source": source,
                               "target": target, "field": fields[0], "columns": cols}


# --------------------------------------------------------------------------------------------------- surface
def check_surface(case):
    import pylife.mesh  # noqa: F401
    df, back, bnd = mesh_frame("hex", case["dims"], case["pert"], case["nnum"], case["enum"], case["order"])
    try:
        with warnings.catch_warnings():
            warnings.simplefilter("ignore")
            s = df.surface_3D.is_at_surface()
    except Exception as e:                       # noqa: BLE001
        return [("C19/Surface3D/raises-%s" % type(e).__name__, {"msg": str(e)[:200]})], "raise"
    got = {}
    names = list(s.index.names)
    if sorted(names) != ["element_id", "node_id"]:
        return [("C19/Surface3D/index", {"names": names})], "index"
    for idx, v in s.items():
        key = (idx[names.index("element_id")], idx[names.index("node_id")])
        if key in got:
            return [("C19/Surface3D/index", {"duplicate": list(key)})], "index"
        got[key] = bool(v)
    if set(got) != set(df.index):
        return [("C19/Surface3D/index", {"missing": [list(k) for k in sorted(set(df.index) - set(got))][:10],
                                        "extra": [list(k) for k in sorted(set(got) - set(df.index))][:10]})], "index"
    wrong = sorted(k for k, v in got.items() if v != (k[1] in bnd))
    if wrong:
        k = wrong[0]
        return [("C19/Surface3D/%s" % ("interior-node-flagged" if got[k] else "boundary-node-missed"),
                 {"element_id": int(k[0]), "node_id": int(k[1]), "natural_node": back[k[1]], "n_wrong": len(wrong)})], "wrong"
    return [], "ok"


def _surface_cases(t):
    s = t["surface"]
    for dims in s["dims"]:
        for pert in s["perts"]:
            for nnum in s["node_numberings"]:
                for enum in s["element_numberings"]:
                    for order in s["row_orders"]:
                        yield {"family": "surface", "dims": list(dims), "pert": list(pert), "nnum": nnum, "enum": enum, "order": order}


# --------------------------------------------------------------------------------------------------- hotspot
def _hs_rows(structure, variant):
    rows = [(e + 1, n) for e, el in enumerate(structure) for n in el]
    if variant == "plain":
        return rows
    if variant == "gaps-reversed-rows":
        return [(1000 - 10 * e, n * 10 + 5) for e, n in reversed(rows)]
    if variant == "interleaved":
        blocks = [[(e + 1, n) for n in el] for e, el in enumerate(structure)]
        out = []
        for pos in range(max(len(b) for b in blocks)):
            for b in blocks:
                if pos < len(b):
                    out.append((b[pos][0] + 100, 50 - b[pos][1]))
        return out
    raise ValueError(variant)


def check_hotspot(case):
    """case: {family:'hotspot', structure, variant, values, frac}"""
    import pandas as pd
    import pylife.mesh  # noqa: F401
    rows = _hs_rows([tuple(e) for e in case["structure"]], case["variant"])
    vals = [float(v) for v in case["values"]]
    if case["variant"] == "gaps-reversed-rows":
        vals = vals[::-1]
    elif case["variant"] == "interleaved":
        plain = _hs_rows([tuple(e) for e in case["structure"]], "plain")
        lookup = {(e + 100, 50 - n): v for (e, n), v in zip(plain, vals)}
        vals = [lookup[r] for r in rows]
    df = pd.DataFrame({"v": vals, "x": 0.0, "y": 0.0}, index=pd.MultiIndex.from_tuples(rows, names=["element_id", "node_id"]))
    exp, peaks = M.hotspot_reference(rows, vals, case["frac"])
    try:
        with warnings.catch_warnings():
            warnings.simplefilter("ignore")
            hs = df.hotspot.calc("v", limit_frac=case["frac"])
    except Exception as e:                       # noqa: BLE001
        return [("C19/HotSpot/raises-%s" % type(e).__name__, {"msg": str(e)[:200]})], "raise", exp
    if not hs.index.equals(df.index):
        return [("C19/HotSpot/index", {"index": [list(i) for i in hs.index]})], "index", exp
    got = [int(v) for v in hs.tolist()]
    if [g > 0 for g in got] != [e > 0 for e in exp]:
        return [("C19/HotSpot/threshold-set", {"rows": rows, "values": vals, "got": got, "expected": exp})], "wrong", exp
    if not M.same_labelling(got, exp, peaks):
        same_partition = len(set(zip(got, exp))) == len(set(exp)) == len(set(got))
        key = "C19/HotSpot/label-order" if same_partition else "C19/HotSpot/components"
        return [(key, {"rows": rows, "values": vals, "got": got, "expected": exp, "peaks": peaks})], "wrong", exp
    # ONE kept accessor object asked for another threshold first and then for this one: the same labels again
    try:
        with warnings.catch_warnings():
            warnings.simplefilter("ignore")
            kept = df.hotspot
            kept.calc("v", limit_frac=0.5)
            again = [int(v) for v in kept.calc("v", limit_frac=case["frac"]).tolist()]
    except Exception as e:                       # noqa: BLE001
        return [("C19/HotSpot/kept-accessor/raises-%s" % type(e).__name__, {"msg": str(e)[:200]})], "raise", exp
    if again != got:
        return [("C19/HotSpot/kept-accessor-asked-before/labels-differ", {"rows": rows, "values": vals, "fresh": got, "kept": again})], "wrong", exp
    return [], "ok", exp


def _hotspot_blocks(t):
    """-> list of (structure, variant, value alphabet, fracs) ; each expands to alphabet^rows x fracs cases"""
    h = t["hotspot"]
    out = []
    for st in M.incidence_structures(h["max_elements"]):
        n = sum(len(e) for e in st)
        alpha = h["values"] if n <= h.get("max_rows_full_alphabet", 99) else h["values_above"]
        for variant in h["variants_small"]:
            if variant != "plain" and (n > 7 or n == 7 and variant not in h.get("variants_7_rows", h["variants_small"])):
                continue
            out.append((st, variant, alpha, h["fracs"]))
    for name, st in CHAINS.items():
        for variant in h["chains"]["variants"]:
            n = sum(len(e) for e in st)
            alpha = h["chains"]["values"] if variant == "plain" and n <= h.get("max_rows_full_alphabet", 99) \
                else h["chains"].get("values_variants", h["chains"]["values"])
            out.append((st, variant, alpha, h["fracs"]))
    return out


# --------------------------------------------------------------------------------------------------- explorer
def shards(tier):
    t = _tier(tier)
    out = []
    for block in chunked(list(_mapping_cases(t)), 60):
        out.append(("cases", block))
    for block in chunked(list(_surface_cases(t)), 12):
        out.append(("cases", block))
    grad = list(_gradient_cases(t))
    grad.sort(key=lambda c: (len(c["fields"]) > 4, np.prod(c["dims"]) * (1 if c["kind"] == "hex" else 6)))
    for block in chunked([c for c in grad if len(c["fields"]) <= 4], 40):
        out.append(("cases", block))
    for c in grad:
        if len(c["fields"]) > 4:
            out.append(("cases", [c]))
    for st, variant, alpha, fracs in _hotspot_blocks(t):
        n = sum(len(e) for e in st)
        allv = list(itertools.product(alpha, repeat=n))
        for vb in chunked(allv, 700):
            out.append(("hotspot", st, variant, vb, fracs))
    return out


def _nontrivial(case):
    return case["pert"][0] != 0.0 or case["pert"][2] != 0 or case.get("nnum", "identity") != "identity" or case.get("enum", "identity") != "identity" \
        or case.get("order", "given") != "given" or case.get("source", "nodes") != "nodes"


def run_shard(shard):
    acc = Acc()
    if shard[0] == "cases":
        for case in shard[1]:
            acc.cases += 1
            fam = case["family"]
            if fam == "gradient":
                viol, outcome = check_gradient(case)
                acc.evaluations += len(outcome)
                acc.outcome([fam, case["op"], outcome[-1], case["kind"], case["dims"]])
                acc.count("cases/%s" % case["op"])
            elif fam == "mapping":
                viol, outcome = check_mapping(case)
                acc.evaluations += 1
                acc.outcome([fam, outcome, case["target"], case["dims"]])
                acc.count("cases/Meshmapper")
            else:
                viol, outcome = check_surface(case)
                acc.evaluations += 1
                acc.outcome([fam, outcome, case["dims"]])
                acc.count("cases/Surface3D")
            if _nontrivial(case):
                acc.nontrivial += 1
            for key, detail in viol:
                acc.violation(key, case, detail)
            if not acc.samples and fam == "gradient" and case["nnum"] == "derangement" and case["order"] == "interleaved":
                acc.sample(case)
        return acc
    _, st, variant, vblock, fracs = shard
    for vals in vblock:
        for frac in fracs:
            case = {"family": "hotspot", "structure": [list(e) for e in st], "variant": variant, "values": list(vals), "frac": frac}
            acc.cases += 1
            acc.evaluations += 1
            viol, outcome, exp = check_hotspot(case)
            acc.outcome(["hotspot", len(st), sum(len(e) for e in st), exp])
            above = sum(1 for e in exp if e > 0)
            if above >= 2 and (max(exp) >= 2 or above < len(exp)):
                acc.nontrivial += 1
                if not acc.samples and max(exp) >= 2 and above < len(exp):
                    acc.sample({"case": case, "expected_labels": exp})
            for key, detail in viol:
                acc.violation(key, case, detail)
    acc.count("cases/HotSpot", acc.cases)
    return acc


def replay(case):
    fam = case["family"]
    if fam == "gradient":
        return check_gradient(case)[0]
    if fam == "mapping":
        return check_mapping(case)[0]
    if fam == "surface":
        return check_surface(case)[0]
    return check_hotspot(case)[0]
