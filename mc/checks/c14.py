"""C14 - load collectives and histograms account for every cycle exactly once.

Stateless exhaustive enumeration on the real pyLife code, seven families of cases:

derived     every collective of 1..k rows over the from/to alphabet, given as from/to and as range/mean, with/without
            a cycles column, plain / named / multi index: amplitude, mean, upper, lower, R, cycles against the definitions
            and against each other (upper - lower = 2 amplitude, (upper + lower)/2 = mean, R = lower/upper).
scaleshift  the same collectives x scale / shift operands (scalars and per-level Series): loads transformed, cycles and
            index untouched.
hist        the same collectives x every bin specification: range_histogram(), histogram(); every row inside the covered
            range in exactly one class (numpy's edge convention), class counts sum to the number of such rows, range
            histogram = marginal of the range/mean histogram when all means are covered; also with axis=.
recorder    LoopValueRecorder.histogram() on the same loops.
lh          LoadHistogram (from/to, range/mean, range-only matrices; class location mid/left/right): derived quantities,
            scale / shift.
rebin       rebin_histogram(): total conserved for every gap-free covering target, identity on the same binning,
            rebin(rebin(h, B1), B2) == rebin(h, B2) whenever B1 refines B2; 1-D and 2-D.
combine     combine_histogram(method='sum') conserves the grand total.

Interpretation (DESIGN.md): one *row* of a collective is one cycle for histogramming.  Collectives with a cycles column
are run as well; weighted vs. unweighted totals are only reported.
"""
import itertools
import warnings

import numpy as np

from mc import build_ext
from mc.explore import Acc, chunked
from mc.refs import collective as ref

ID = "C14"
LEVEL = "exploration"
RULE = ("all ordered collectives of 1..k rows (all multisets where the row order cannot matter: plain histograms, recorder) "
        "over the (from, to) alphabet x form x index layout x operand resp. bin specification; all count vectors of the alphabet on the "
        "source binnings x all target binnings (x all refining pairs) for rebin/combine. One case = one collective or "
        "histogram with one specification. Non-trivial = histogram case with a row exactly on a class edge or outside "
        "the covered range; derived/scale case with from != to in some row; rebin case whose target cuts a source class; "
        "combine case with a shared class")
ASSUMPTIONS = [
    "class membership follows numpy.histogram's documented convention (left-closed classes, last class closed); the "
    "IntervalIndex labels '(l, r]' attached by pyLife are not interpreted",
    "all loads and edges are dyadic rationals, so sums, differences, halves and products by the dyadic scale factors "
    "are exact and compared with ==; rebin sums (overlap fractions like 0.7/1.7) are compared with rtol 1e-12",
    "one row of a collective = one cycle for histogramming (a cycles column is ignored by pyLife there; reported only)",
    "rainflow_ext is rebuilt from the working tree's extension.pyx before LoopValueRecorder is imported",
]

V = (-2.0, -1.0, 0.0, 1.0, 3.0)
PAIRS = [list(p) for p in itertools.product(V, V)]
CYC = [2.0, 1.0, 5.0, 3.0]

SCALES = [0.5, 2.0, -1.0]
SHIFTS = [-1.5, 0.0, 4.0]
LEVEL_SCALES = [{"10": 2.0, "20": -1.0}, {"10": 0.5, "20": 0.5}]
LEVEL_SHIFTS = [{"10": -1.5, "20": 4.0}]

# name -> (spec for range_histogram or None, spec for histogram or None)
E = lambda e: {"t": "edges", "e": e}                    # noqa: E731
I = lambda n: {"t": "int", "n": n}                      # noqa: E731
II = lambda e: {"t": "ii", "e": e}                      # noqa: E731
IA = lambda e: {"t": "ia", "e": e}                      # noqa: E731
D2 = lambda x, y: {"t": "2d", "x": x, "y": y}           # noqa: E731
SPECS = [
    ("int", I(1), I(1)), ("int", I(2), I(2)), ("int", I(3), I(3)),
    ("edges", E([0.0, 1.0, 2.0, 3.0, 4.0, 5.0]), D2([0.0, 1.0, 2.0, 3.0, 4.0, 5.0], [-2.0, -1.0, 0.0, 1.0, 2.0, 3.0])),
    ("edges", E([-2.0, 0.0, 1.0, 5.0]), E([-2.0, 0.0, 1.0, 5.0])),
    ("edges", E([0.0, 2.0, 4.0]), D2([0.0, 2.0, 4.0], [-1.0, 1.0])),
    ("edges", E([0.0, 0.5, 3.0, 5.0]), D2([0.0, 0.5, 3.0, 5.0], [-2.0, 0.25, 3.0])),
    ("single-bin", E([1.0, 2.0]), D2([1.0, 2.0], [-2.0, 3.0])),
    ("single-bin", E([0.0, 5.0]), D2([0.0, 5.0], [-2.0, 3.0])),
    ("IntervalIndex", II([0.0, 1.0, 2.0, 5.0]), II([-2.0, 0.0, 1.0, 5.0])),
    ("IntervalIndex-single", II([0.0, 5.0]), II([-2.0, 5.0])),
    ("IntervalArray", IA([0.0, 2.0, 5.0]), IA([-2.0, 0.0, 5.0])),
    ("mixed", None, D2(2, [-2.0, 0.0, 3.0])),
]
AXIS_SPECS = [SPECS[i] for i in (1, 3, 5, 8, 9, 10, 12)]
MULTISET_SPECS = {"quick": [SPECS[i] for i in (1, 3, 5, 9)], "thorough": AXIS_SPECS}
REC_SPECS = [I(1), I(2), I(3), E([-2.0, 0.0, 1.0, 3.0]), D2([-2.0, 0.0, 3.0], [-2.0, 1.0, 3.0]), D2([-2.0, 3.0], [-2.0, 3.0]),
             D2([-1.0, 1.0], [0.0, 3.0]), D2(2, [-2.0, 0.5, 3.0])]

REBIN = {
    "quick": {
        "sources": [[0.0, 1.0, 2.0, 3.0], [0.0, 0.5, 2.0, 3.0]],
        "counts": (0.0, 1.0, 5.0),
        "targets": [[0.0, 1.0, 2.0, 3.0], [0.0, 0.5, 2.0, 3.0], [0.0, 0.5, 1.0, 1.5, 2.0, 2.5, 3.0], [0.0, 1.5, 3.0], [-1.0, 0.7, 2.2, 4.0],
                    [0.0, 3.0], [-1.0, 4.0], [0.0, 0.25, 3.0], [0.0, 2.0, 3.0], [0.5, 2.5], [1.0, 2.0, 3.0]],
        "ints": [1, 2, 3, 5],
    },
    "thorough": {
        "sources": [[0.0, 1.0, 2.0, 3.0], [0.0, 0.5, 2.0, 3.0], [0.0, 1.0, 2.0, 3.0, 4.0], [-1.0, -0.5, 2.0, 3.0, 4.5]],
        "counts": (0.0, 1.0, 5.0),
        "targets": [[0.0, 1.0, 2.0, 3.0], [0.0, 0.5, 2.0, 3.0], [0.0, 1.0, 2.0, 3.0, 4.0], [-1.0, -0.5, 2.0, 3.0, 4.5],
                    [0.0, 0.5, 1.0, 1.5, 2.0, 2.5, 3.0], [0.0, 0.5, 1.0, 1.5, 2.0, 2.5, 3.0, 3.5, 4.0], [0.0, 1.5, 3.0], [0.0, 2.0, 4.0],
                    [-1.0, 0.7, 2.2, 4.0], [-1.0, 0.7, 2.2, 5.0], [0.0, 3.0], [0.0, 4.0], [-1.0, 4.5], [-2.0, 6.0], [0.0, 0.25, 3.0],
                    [0.0, 2.0, 3.0], [-1.0, 2.0, 4.5], [-1.0, -0.75, -0.5, 0.75, 2.0, 2.5, 3.0, 4.5], [0.5, 2.5], [1.0, 2.0, 3.0]],
        "ints": [1, 2, 3, 4, 5, 7],
    },
}
REBIN2D_SRC = {"x": [0.0, 1.0, 2.0], "y": [0.0, 2.0, 4.0]}
REBIN2D_TGT = [II([0.0, 0.5, 4.0]), II([0.0, 1.0, 2.0, 3.0, 4.0]), II([0.0, 4.0]), II([-1.0, 5.0]),
               {"t": "mi", "x": [0.0, 1.0, 2.0], "y": [0.0, 2.0, 4.0]}, {"t": "mi", "x": [0.0, 0.5, 2.0], "y": [0.0, 1.0, 2.0, 4.0]},
               {"t": "mi", "x": [0.0, 2.0], "y": [0.0, 1.0, 4.0]}, {"t": "mi", "x": [-1.0, 1.0, 3.0], "y": [0.0, 4.0, 5.0]}, I(2), I(1)]

COMBINE_BINNINGS = [[0.0, 1.0, 2.0, 3.0], [1.0, 2.0, 3.0, 4.0], [0.0, 1.5, 3.0], [0.0, 3.0]]

LH_GEOMS = (
    [{"form": "fromto", "x": x, "y": y} for x in ([-2.0, 0.0, 2.0], [-3.0, -1.0, 0.0, 2.0], [0.0, 1.0]) for y in ([-2.0, 0.0, 2.0], [-3.0, -1.0, 0.0, 2.0], [0.0, 1.0])]
    + [{"form": "rangemean", "x": x, "y": y} for x in ([0.0, 2.0, 4.0], [0.0, 1.0, 5.0]) for y in ([-3.0, 0.0, 3.0], [-1.0, 1.0])]
    + [{"form": "range", "x": [0.0, 2.0, 4.0], "y": None}, {"form": "range", "x": [1.0, 2.0], "y": None}])


def _ordered(kmax):
    return [list(c) for k in range(1, kmax + 1) for c in itertools.product(PAIRS, repeat=k)]


def _multisets(k):
    return [list(c) for c in itertools.combinations_with_replacement(PAIRS, k)]


def _plan(tier):
    """Row sets per part.  Row order is irrelevant for the plain-layout histograms and the recorder (multisets); it
    decides the grouping for axis= (ordered; 3 rows: an unordered pair on element 10 x one row on element 20)."""
    q = tier == "quick"
    return {
        "derived": _ordered(2 if q else 3),
        "scaleshift-scalar": _ordered(2 if q else 3),
        "scaleshift-per-level": [c for c in _ordered(2) if len(c) == 2] + ([] if q else _multisets(3)),
        "hist-all-specs": _multisets(1) + _multisets(2) + ([] if q else _multisets(3)),
        "hist-reduced-specs": _multisets(3) if q else _multisets(4),
        "hist-axis": [c for c in _ordered(2) if len(c) == 2] + ([] if q else [list(p) + [r] for p in _multisets(2) for r in PAIRS]),
        "recorder": _multisets(1) + _multisets(2) + ([] if q else _multisets(3)),
    }


def bounds(tier):
    rb = REBIN[tier]
    plan = _plan(tier)
    return {
        "from/to alphabet": V,
        "collectives per part (ordered rows where the order can matter, multisets where it cannot)": {k: len(v) for k, v in plan.items()},
        "rows": {"derived, scale/shift with scalars": "all ordered collectives of 1..%d rows" % (2 if tier == "quick" else 3),
                 "scale/shift with per-level operands": "all ordered 2-row collectives" + ("" if tier == "quick" else " + all 3-row multisets"),
                 "histograms, all specs": "all multisets of 1..%d rows" % (2 if tier == "quick" else 3),
                 "histograms, reduced specs": "all multisets of %d rows" % (3 if tier == "quick" else 4),
                 "histograms with axis=": "all ordered 2-row collectives (one row per element)"
                 + ("" if tier == "quick" else " + all (unordered pair on element 10) x (row on element 20)"),
                 "recorder": "all multisets of 1..%d loops" % (2 if tier == "quick" else 3)},
        "forms": ["from/to (both orders, equal values)", "range/mean"], "cycles column": [None, CYC],
        "index layouts": ["default", "named non-monotonic", "MultiIndex (element_id, cycle)"],
        "scale": SCALES, "shift": SHIFTS, "per-level scale": LEVEL_SCALES, "per-level shift": LEVEL_SHIFTS,
        "bin specifications (range_histogram, histogram)": [[n, a, b] for n, a, b in SPECS],
        "bin specifications with axis=": [[n, a, b] for n, a, b in AXIS_SPECS],
        "bin specifications for the multisets of the longest length": [[n, a, b] for n, a, b in MULTISET_SPECS[tier]],
        "recorder bin specifications": REC_SPECS,
        "LoadHistogram geometries": list(LH_GEOMS), "class location": ["mid", "left", "right"],
        "rebin": {"sources": rb["sources"], "counts": "all vectors over %s" % (rb["counts"],), "count dtypes": ["float64", "int64"], "targets (IntervalIndex)": rb["targets"],
                  "targets (int)": rb["ints"], "compose": "all (B1, B2) of the target list with B1 refining B2",
                  "2-D source": REBIN2D_SRC, "2-D targets": REBIN2D_TGT},
        "combine": {"binnings": COMBINE_BINNINGS, "counts": "all vectors over (0, 1, 5)", "lists": "all ordered pairs"
                    + ("" if tier == "quick" else " and all triples over counts (0, 5)") + "; 2-D pairs"},
    }


def prepare(tier):
    build_ext.ensure()


def shards(tier):
    out = []
    plan = _plan(tier)
    for block in chunked(plan["derived"], 250):
        out.append(("derived", block))
    for block in chunked(plan["scaleshift-scalar"], 150):
        out.append(("scaleshift", block, "scalar"))
    for block in chunked(plan["scaleshift-per-level"], 60):
        out.append(("scaleshift", block, "per-level"))
    for block in chunked(plan["hist-all-specs"], 60):
        out.append(("hist", block, "all", tier))
    for block in chunked(plan["hist-reduced-specs"], 150):
        out.append(("hist", block, "reduced", tier))
    for block in chunked(plan["hist-axis"], 100):
        out.append(("hist", block, "axis", tier))
    for block in chunked(plan["recorder"], 200):
        out.append(("recorder", block))
    out.append(("lh",))
    rb = REBIN[tier]
    for si, src in enumerate(rb["sources"]):
        cvs = [list(c) for c in itertools.product(rb["counts"], repeat=len(src) - 1)]
        for block in chunked(cvs, 9):
            out.append(("rebin", tier, si, block))
    cvs = [list(c) for c in itertools.product((0.0, 1.0, 5.0), repeat=4)]
    for block in chunked(cvs, 9 if tier == "quick" else 9):
        out.append(("rebin2d", block))
    hists = [[b, list(c)] for b in COMBINE_BINNINGS for c in itertools.product((0.0, 1.0, 5.0), repeat=len(b) - 1)]
    for block in chunked(hists, 6):
        out.append(("combine", tier, block))
    return out


# ------------------------------------------------------------------------------------------------ building inputs
def _pl():
    import pylife.stress.collective  # noqa: F401  (registers the accessors)


def _frame(rows, form, cycles, layout, elements=None):
    import pandas as pd
    n = len(rows)
    f = np.array([r[0] for r in rows], dtype=float)
    t = np.array([r[1] for r in rows], dtype=float)
    if form == "fromto":
        data = {"from": f, "to": t}
    else:
        data = {"range": np.abs(f - t), "mean": (f + t) / 2.0}
    if cycles is not None:
        data["cycles"] = np.array(cycles[:n], dtype=float)
    if layout == "plain":
        idx = None
    elif layout == "named":
        idx = pd.Index([(n - i) * 10 for i in range(n)], name="cycle")
    elif layout == "repeated":
        # row labels that repeat (two recordings, each numbered 0..k-1, put one after the other)
        k = max(1, (n + 1) // 2)
        idx = pd.Index([i % k for i in range(n)], name="cycle")
    else:
        el = elements or _default_elements(n)
        seen, cyc = {}, []
        for e in el:
            cyc.append(seen.get(e, 0))
            seen[e] = seen.get(e, 0) + 1
        idx = pd.MultiIndex.from_arrays([el, cyc], names=["element_id", "cycle"])
    return pd.DataFrame(data, index=idx)


def _default_elements(n):
    return [10] * ((n + 1) // 2) + [20] * (n // 2)


def _bins(spec):
    import pandas as pd
    t = spec["t"]
    if t == "int":
        return int(spec["n"])
    if t == "edges":
        return [float(x) for x in spec["e"]]
    if t == "ii":
        return pd.IntervalIndex.from_breaks([float(x) for x in spec["e"]])
    if t == "ia":
        return pd.arrays.IntervalArray.from_breaks([float(x) for x in spec["e"]])
    if t == "2d":
        conv = lambda v: int(v) if isinstance(v, int) else [float(x) for x in v]   # noqa: E731
        return [conv(spec["x"]), conv(spec["y"])]
    if t == "mi":
        return pd.MultiIndex.from_product([pd.IntervalIndex.from_breaks(spec["x"]), pd.IntervalIndex.from_breaks(spec["y"])], names=["a", "b"])
    raise ValueError(t)


def _given_edges(spec, dim):
    """Edges the caller asked for in dimension dim (0 = first), or None when pyLife/numpy chooses them (int)."""
    t = spec["t"]
    if t == "int":
        return None
    if t in ("edges", "ii", "ia"):
        return [float(x) for x in spec["e"]]
    v = spec["x"] if dim == 0 else spec["y"]
    return None if isinstance(v, int) else [float(x) for x in v]


def _edges_of(level):
    """Edges of an IntervalIndex level in order of first appearance."""
    u = level.unique()
    return [float(u.left[0])] + [float(x) for x in u.right]


def _call(site, fn, viol, case):
    try:
        with warnings.catch_warnings():
            warnings.simplefilter("ignore")
            with np.errstate(all="ignore"):
                return fn()
    except Exception as e:  # noqa: BLE001 - pyLife raising where the property expects a value is the finding
        viol.append(("C14/%s/raises-%s" % (site, type(e).__name__), case, {"error": str(e)[:300]}))
        return None


def _same(a, b):
    a, b = np.asarray(a, dtype=float), np.asarray(b, dtype=float)
    return a.shape == b.shape and bool(np.array_equal(a, b, equal_nan=True))


def _close(a, b, rtol=1e-12):
    a, b = np.asarray(a, dtype=float), np.asarray(b, dtype=float)
    return a.shape == b.shape and bool(np.all(np.abs(a - b) <= rtol * np.maximum(np.maximum(np.abs(a), np.abs(b)), 1.0)))


# ------------------------------------------------------------------------------------------------ derived quantities
QUANT = ("amplitude", "meanstress", "upper", "lower", "R")
REFNAME = {"amplitude": "amplitude", "meanstress": "mean", "upper": "upper", "lower": "lower", "R": "R"}


def _judge_derived(site, accessor, expected, exp_cycles, index, viol, case):
    """identities between the quantities pyLife returns + agreement with the definitions."""
    got = {}
    for q in QUANT + ("cycles",):
        s = _call("%s/%s" % (site, q), lambda: getattr(accessor, q), viol, case)
        if s is None:
            return None
        if index is not None and (len(s.index) != len(index) or not s.index.equals(index)):
            viol.append(("C14/%s/%s/index" % (site, q), case, {"got": repr(s.index)[:200], "expected": repr(index)[:200]}))
            return None
        got[q] = np.asarray(s, dtype=float)
    a, m, up, lo, R = (got[q] for q in QUANT)
    if not _same(up - lo, 2.0 * a):
        viol.append(("C14/%s/upper-lower!=2amplitude" % site, case, {"upper": up, "lower": lo, "amplitude": a}))
    if not _same((up + lo) / 2.0, m):
        viol.append(("C14/%s/(upper+lower)/2!=mean" % site, case, {"upper": up, "lower": lo, "mean": m}))
    if not _same(R, [ref.ratio(x, y) for x, y in zip(lo, up)]):
        viol.append(("C14/%s/R!=lower/upper" % site, case, {"upper": up, "lower": lo, "R": R}))
    for q in QUANT:
        if not _same(got[q], expected[REFNAME[q]]):
            viol.append(("C14/%s/%s" % (site, q), case, {"got": got[q], "expected": expected[REFNAME[q]]}))
    if not _same(got["cycles"], exp_cycles):
        viol.append(("C14/%s/cycles" % site, case, {"got": got["cycles"], "expected": exp_cycles}))
    return got


def eval_derived(case, acc=None):
    _pl()
    rows, form, cycles, layout = case["rows"], case["form"], case.get("cycles"), case["layout"]
    viol = []
    df = _frame(rows, form, cycles, layout)
    # range/mean input is by definition the collective from = mean - range/2, to = mean + range/2
    exp = ref.derived(rows)
    lc = _call("collective/%s" % form, lambda: df.load_collective, viol, case)
    if acc is not None:
        acc.evaluations += 1
    if lc is None:
        return viol
    got = _judge_derived("collective/%s" % form, lc, exp, cycles[:len(rows)] if cycles else [1.0] * len(rows), df.index, viol, case)
    if acc is not None and got is not None:
        acc.outcomes.add(hash(tuple(tuple(got[q].tolist()) for q in QUANT)))
    return viol


# ------------------------------------------------------------------------------------------------ scale / shift
def _operand(op):
    import pandas as pd
    if isinstance(op, dict):
        keys = sorted(op)
        return pd.Series([float(op[k]) for k in keys], index=pd.Index([int(k) for k in keys], name="element_id"))
    return float(op)


def eval_scaleshift(case, acc=None):
    _pl()
    rows, form, cycles, layout, what, op = case["rows"], case["form"], case.get("cycles"), case["layout"], case["op"], case["operand"]
    viol = []
    df = _frame(rows, form, cycles, layout)
    before = df.copy(deep=True)
    site = "collective.%s/%s" % (what, "per-level-operand" if isinstance(op, dict) else "scalar")
    res = _call(site, lambda: getattr(df.load_collective, what)(_operand(op)), viol, case)
    if acc is not None:
        acc.evaluations += 1
    if res is None:
        return viol
    if acc is not None and not df.equals(before):
        acc.count("%s modified the caller's DataFrame in place (outside the property; reported, not judged)" % site)
    el = _default_elements(len(rows))
    new_rows = []
    for i, (f, t) in enumerate(rows):
        if form == "rangemean":                       # the collective described by range/mean: from = lower, to = upper
            f, t = min(f, t), max(f, t)
        x = float(op[str(el[i])]) if isinstance(op, dict) else float(op)
        new_rows.append([f * x, t * x] if what == "scale" else [f + x, t + x])
    exp = ref.derived(new_rows)
    got = _judge_derived(site, res, exp, cycles[:len(rows)] if cycles else [1.0] * len(rows), before.index, viol, case)
    if got is not None:
        out = _call(site, res.to_pandas, viol, case)
        if out is not None:
            if not _same(out["from"], [r[0] for r in new_rows]) or not _same(out["to"], [r[1] for r in new_rows]):
                viol.append(("C14/%s/from-to" % site, case, {"got": out[["from", "to"]].to_numpy(), "expected": new_rows}))
            if cycles is not None and ("cycles" not in out or not _same(out["cycles"], cycles[:len(rows)])):
                viol.append(("C14/%s/cycles-column" % site, case, {"columns": list(out.columns)}))
        if acc is not None:
            acc.outcomes.add(hash(tuple(tuple(got[q].tolist()) for q in QUANT)))
    return viol


# ------------------------------------------------------------------------------------------------ histogramming
def _spec_values(rows):
    rng = [abs(f - t) for f, t in rows]
    mean = [(f + t) / 2.0 for f, t in rows]
    return rng, mean


def _nontrivial_1d(values, edges):
    return any(v in edges for v in values) or any(ref.class_of(v, edges) is None for v in values)


def _check_range_hist(site, h, rng, spec, viol, case):
    """h: Series of one group. Returns edges or None."""
    import pandas as pd
    if not isinstance(h.index, pd.IntervalIndex):
        viol.append(("C14/%s/result-index" % site, case, {"index": repr(h.index)[:200]}))
        return None
    edges = [float(h.index.left[0])] + [float(x) for x in h.index.right] if len(h) else []
    given = _given_edges(spec, 0)
    if given is not None and edges != given:
        viol.append(("C14/%s/class-edges" % site, case, {"got": edges, "asked": given}))
        return None
    exp, inside = ref.hist1d(rng, edges)
    got = [float(x) for x in h.to_numpy()]
    if got != [float(x) for x in exp]:
        viol.append(("C14/%s/class-counts" % site, case, {"ranges": rng, "edges": edges, "got": got, "expected": exp,
                                                           "rows_inside_covered_range": inside}))
        return None
    return edges


def _check_2d_hist(site, h, xs, ys, spec, viol, case, names=("range", "mean")):
    import pandas as pd
    if not isinstance(h.index, pd.MultiIndex) or list(h.index.names) != list(names):
        viol.append(("C14/%s/result-index" % site, case, {"index": repr(h.index)[:200]}))
        return None
    xe, ye = _edges_of(h.index.get_level_values(names[0])), _edges_of(h.index.get_level_values(names[1]))
    for dim, (got_e, nm) in enumerate(((xe, names[0]), (ye, names[1]))):
        given = _given_edges(spec, dim)
        if given is not None and got_e != given:
            viol.append(("C14/%s/class-edges" % site, case, {"level": nm, "got": got_e, "asked": given}))
            return None
    exp, inside = ref.hist2d(xs, ys, xe, ye)
    if len(h) != (len(xe) - 1) * (len(ye) - 1):
        viol.append(("C14/%s/result-index" % site, case, {"len": len(h), "classes": [(len(xe) - 1), (len(ye) - 1)]}))
        return None
    # address every class by its intervals (not by position)
    got = [[0.0] * (len(ye) - 1) for _ in xe[:-1]]
    xl = {l: i for i, l in enumerate(xe[:-1])}
    yl = {l: j for j, l in enumerate(ye[:-1])}
    for (ix, iy), v in zip(h.index, h.to_numpy()):
        got[xl[float(ix.left)]][yl[float(iy.left)]] += float(v)
    if got != [[float(v) for v in r] for r in exp]:
        viol.append(("C14/%s/class-counts" % site, case, {"x": xs, "y": ys, "x_edges": xe, "y_edges": ye, "got": got, "expected": exp,
                                                           "rows_inside_covered_range": inside}))
        return None
    return xe, ye, got


def eval_hist(case, acc=None):
    """case: rows, cycles, layout ('plain' | 'axis'), name, rspec, hspec."""
    _pl()
    rows, cycles, layout, name = case["rows"], case.get("cycles"), case["layout"], case["name"]
    rspec, hspec = case.get("rspec"), case.get("hspec")
    viol = []
    axis = "cycle" if layout == "axis" else None
    if axis is not None and "relabel" not in case:
        # every grouped case twice: group keys first appearing in sorted order (10, 20) and not (30, 10)
        out = []
        for relabel in (None, {10: 30, 20: 10}):
            out += eval_hist(dict(case, relabel=relabel), acc)
        return out
    relabel = {int(k): v for k, v in (case.get("relabel") or {}).items()}      # JSON turns the keys into strings
    el = [relabel.get(e, e) for e in _default_elements(len(rows))]
    groups = {None: list(range(len(rows)))} if axis is None else {e: [i for i in range(len(rows)) if el[i] == e] for e in sorted(set(el))}
    # with axis= and a class *count* every group gets its own data-dependent edges: an input class of its own
    per_group = axis is not None and any(sp is not None and (sp["t"] == "int" or (sp["t"] == "2d" and (isinstance(sp["x"], int) or isinstance(sp["y"], int))))
                                         for sp in (rspec, hspec))
    suffix = "/axis-with-per-group-edges" if per_group else ""
    if per_group:
        name = "count"
    redges = {}
    rcounts = {}
    if rspec is not None:
        site = "range_histogram%s/%s" % (suffix, name)
        df = _frame(rows, "fromto", cycles, "plain" if axis is None else "multi", el)
        res = _call(site, lambda: df.load_collective.range_histogram(_bins(rspec), axis).to_pandas(), viol, case)
        if acc is not None:
            acc.evaluations += 1
        if res is not None:
            for g, members in groups.items():
                part = res if g is None else _call(site, lambda: res.xs(g, level="element_id"), viol, case)
                if part is None:
                    continue
                rng, _ = _spec_values([rows[i] for i in members])
                e = _check_range_hist(site, part, rng, rspec, viol, case)
                if e is not None:
                    redges[g] = e
                    rcounts[g] = [float(x) for x in part.to_numpy()]
                    if acc is not None:
                        acc.outcomes.add(hash((tuple(e), tuple(rcounts[g]))))
    if hspec is not None:
        site = "histogram%s/%s" % (suffix, name)
        df = _frame(rows, "fromto", cycles, "plain" if axis is None else "multi", el)
        res = _call(site, lambda: df.load_collective.histogram(_bins(hspec), axis).to_pandas(), viol, case)
        if acc is not None:
            acc.evaluations += 1
        if res is not None:
            for g, members in groups.items():
                part = res if g is None else _call(site, lambda: res.xs(g, level="element_id"), viol, case)
                if part is None:
                    continue
                rng, mean = _spec_values([rows[i] for i in members])
                r = _check_2d_hist(site, part, rng, mean, hspec, viol, case)
                if r is None:
                    continue
                xe, ye, got = r
                if acc is not None:
                    acc.outcomes.add(hash((tuple(xe), tuple(ye), tuple(map(tuple, got)))))
                # marginal: only when the range classes coincide and every mean is covered
                if g in redges and redges[g] == xe and all(ye[0] <= m <= ye[-1] for m in mean):
                    marg = [sum(r_) for r_ in got]
                    if marg != rcounts[g]:
                        viol.append(("C14/%s/marginal!=range_histogram" % site, case,
                                     {"range_edges": xe, "mean_edges": ye, "marginal": marg, "range_histogram": rcounts[g]}))
                elif g in redges and redges[g] != xe and rspec is not None and rspec.get("t") == "int" and \
                        (hspec.get("t") == "int" and hspec.get("n") == rspec.get("n")
                         or hspec.get("t") == "2d" and hspec.get("x") == rspec.get("n")):
                    # the same class count asked of both: both derive the range classes from the group's own ranges, so the
                    # marginal statement is about the same classes - if they differ one of the two did not use the group's data
                    viol.append(("C14/%s/range-classes-differ-from-range_histogram-for-the-same-count" % site, case,
                                 {"group": g, "range_edges_histogram": xe, "range_edges_range_histogram": redges[g]}))
                elif acc is not None and g in redges:
                    acc.count("marginal clause not applicable (a mean outside the covered range or different range classes)")
    if cycles is not None:
        # the weighted/unweighted question is outside the judged statement: drop class-count judgements, keep exceptions
        viol = [v for v in viol if "/raises-" in v[0]]
        if acc is not None:
            acc.count("collective with cycles column histogrammed (class counts are rows, not weighted; reported, not judged)")
    return viol


def eval_recorder(case, acc=None):
    build_ext.ensure()
    import pylife.stress.rainflow as RF
    rows, spec = case["rows"], case["spec"]
    viol = []
    rec = RF.LoopValueRecorder()
    rec.record_values(np.array([r[0] for r in rows]), np.array([r[1] for r in rows]))
    site = "LoopValueRecorder.histogram/%s" % spec["t"]
    h = _call(site, lambda: rec.histogram(_bins(spec)), viol, case)
    if acc is not None:
        acc.evaluations += 1
    if h is None:
        return viol
    r = _check_2d_hist(site, h, [x[0] for x in rows], [x[1] for x in rows], spec, viol, case, names=("from", "to"))
    if acc is not None and r is not None:
        acc.outcomes.add(hash((tuple(r[0]), tuple(r[1]), tuple(map(tuple, r[2])))))
    # history on ONE recorder: histogram asked while the signal is still streaming (after the first loop, and on the
    # still empty recorder), more loops recorded, histogram asked again - it must be the histogram of a fresh recorder
    # holding all loops (class edges derived from a bin *count* follow the data)
    if len(rows) >= 2:
        kept = RF.LoopValueRecorder()

        def history():
            kept.histogram(_bins(spec)) if spec["t"] != "int" else kept.histogram_numpy(_bins(spec))
            kept.record_values(np.array([rows[0][0]]), np.array([rows[0][1]]))
            kept.histogram(_bins(spec))
            kept.record_values(np.array([r[0] for r in rows[1:]]), np.array([r[1] for r in rows[1:]]))
            return kept.histogram(_bins(spec))
        h2 = _call(site + "/asked-between-recordings", history, viol, case)
        if acc is not None:
            acc.evaluations += 3
        if h2 is not None and not (list(map(str, h2.index)) == list(map(str, h.index))
                                   and np.array_equal(h2.to_numpy(dtype=float), h.to_numpy(dtype=float))):
            viol.append(("C14/%s/asked-between-recordings/differs-from-fresh-recorder" % site, case,
                         {"kept_recorder": h2.to_numpy(), "kept_classes": [str(i) for i in h2.index][:12],
                          "fresh_recorder": h.to_numpy(), "fresh_classes": [str(i) for i in h.index][:12]}))
    # the recorder's collective must hold the same loops
    c = rec.collective
    if not _same(c["from"], [x[0] for x in rows]) or not _same(c["to"], [x[1] for x in rows]):
        viol.append(("C14/LoopValueRecorder.collective", case, {"got": c.to_numpy()}))
    return viol


# ------------------------------------------------------------------------------------------------ LoadHistogram
def _lh_series(geom, elements):
    import pandas as pd
    xi = pd.IntervalIndex.from_breaks(geom["x"])
    if geom["form"] == "range":
        idx = pd.IntervalIndex(xi, name="range")
        classes = [(iv, None) for iv in xi]
    else:
        yi = pd.IntervalIndex.from_breaks(geom["y"])
        names = ["from", "to"] if geom["form"] == "fromto" else ["range", "mean"]
        idx = pd.MultiIndex.from_product([xi, yi], names=names)
        classes = [(a, b) for a in xi for b in yi]
    counts = np.arange(1.0, len(classes) + 1.0)
    s = pd.Series(counts, index=idx, name="cycles")
    if elements:
        s = pd.concat({e: s * (k + 1) for k, e in enumerate(elements)}, names=["element_id"])
        classes = classes * len(elements)
        counts = np.concatenate([counts * (k + 1) for k in range(len(elements))])
    return s, classes, counts


def _lh_expected(form, classes, loc, mode=None, xs=None):
    """Definitions at the class location; scale/shift (factor xs[k] for class k) applied to the class borders first."""
    out = {"amplitude": [], "mean": [], "upper": [], "lower": [], "R": []}
    for k, (a, b) in enumerate(classes):
        x = None if xs is None else xs[k]

        def at(iv, is_range=False):
            l, r = float(iv.left), float(iv.right)
            if mode == "scale":
                l, r = l * x, r * x
                if is_range:
                    l, r = abs(l), abs(r)
            elif mode == "shift" and not is_range:
                l, r = l + x, r + x
            l, r = min(l, r), max(l, r)
            return {"mid": (l + r) / 2.0, "left": l, "right": r}[loc]

        if form == "fromto":
            f, t = at(a), at(b)
            amp, mean = abs(f - t) / 2.0, (f + t) / 2.0
        else:
            amp = at(a, True) / 2.0
            mean = at(b) if b is not None else 0.0
        up, lo = mean + amp, mean - amp
        for q, v in zip(("amplitude", "mean", "upper", "lower", "R"), (amp, mean, up, lo, ref.ratio(lo, up))):
            out[q].append(v)
    return out


def eval_lh(case, acc=None):
    _pl()
    geom, loc, what, op, elements = case["geom"], case["loc"], case.get("op"), case.get("operand"), case.get("elements")
    viol = []
    s, classes, counts = _lh_series(geom, elements)
    form = "fromto" if geom["form"] == "fromto" else "rangemean"
    site = "LoadHistogram/%s" % geom["form"]

    def located(accessor):
        if loc == "left":
            return accessor.use_class_left()
        if loc == "right":
            return accessor.use_class_right()
        return accessor

    if what is None:
        lc = _call(site, lambda: located(s.load_collective), viol, case)
        if acc is not None:
            acc.evaluations += 1
        if lc is None:
            return viol
        got = _judge_derived(site + "/" + loc, lc, _lh_expected(form, classes, loc), counts, s.index, viol, case)
        if loc == "mid" and not viol:
            # ONE kept accessor object asked for every derived quantity, re-located, asked again (mid, right, left, right)
            kept = _call(site + "/kept-accessor", lambda: s.load_collective, viol, case)
            for l in ("mid", "right", "left", "right"):
                if kept is None or viol:
                    break
                if l != "mid":
                    moved = _call(site + "/kept-accessor", (kept.use_class_right if l == "right" else kept.use_class_left), viol, case)
                    kept = moved if moved is not None else None
                    if kept is None:
                        break
                _judge_derived(site + "/kept-accessor-relocated/" + l, kept, _lh_expected(form, classes, l), counts, s.index, viol, case)
                if acc is not None:
                    acc.evaluations += 1
    else:
        neg = (isinstance(op, dict) and any(v < 0 for v in op.values())) or (not isinstance(op, dict) and op < 0)
        site = ("LoadHistogram.scale/negative-factor" if neg and what == "scale" else
                "LoadHistogram.%s/%s/%s" % (what, geom["form"], "per-level-operand" if isinstance(op, dict) else "scalar"))
        res = _call(site, lambda: getattr(s.load_collective, what)(_operand(op)), viol, case)
        if acc is not None:
            acc.evaluations += 1
        if res is None:
            return viol
        if isinstance(op, dict):
            n = len(classes) // len(elements)
            xs = [float(op[str(e)]) for e in elements for _ in range(n)]
        else:
            xs = [float(op)] * len(classes)
        exp = _lh_expected(form, classes, loc, what, xs)
        got = _judge_derived(site, located(res), exp, counts, None, viol, case)
        out = _call(site, res.to_pandas, viol, case)
        if out is not None and list(out.index.names) != list(s.index.names):
            viol.append(("C14/%s/index-names" % site, case, {"got": list(out.index.names), "expected": list(s.index.names)}))
    if acc is not None and got is not None:
        acc.outcomes.add(hash(tuple(tuple(got[q].tolist()) for q in QUANT)))
    return viol


# ------------------------------------------------------------------------------------------------ rebin / combine
def _hist1d(edges, counts, name=None, dtype="float64"):
    import pandas as pd
    return pd.Series([float(c) for c in counts], index=pd.IntervalIndex.from_breaks([float(e) for e in edges], name=name)).astype(dtype)


def _tgt_class(spec):
    if spec["t"] == "int":
        return "int"
    if spec["t"] == "mi":
        return "single-interval-target" if len(spec["x"]) == 2 or len(spec["y"]) == 2 else "MultiIndex"
    return "single-interval-target" if len(spec["e"]) == 2 else "IntervalIndex"


def eval_rebin(case, acc=None):
    """case: src (edges), counts, tgt (spec), via (edges of B1 or None).  1-D."""
    from pylife.utils.histogram import rebin_histogram
    src, counts, tgt, via = case["src"], case["counts"], case["tgt"], case.get("via")
    viol = []
    # dtype "int64": cycle counts as range_histogram() and sums of such histograms deliver them
    h = _hist1d(src, counts, dtype=case.get("dtype", "float64"))
    site = "rebin_histogram/%s" % _tgt_class(tgt)
    r = _call(site, lambda: rebin_histogram(h, _bins(tgt)), viol, case)
    if acc is not None:
        acc.evaluations += 1
    if r is None:
        return viol
    total = float(sum(counts))
    tedges = tgt.get("e")
    covering = True if tedges is None else ref.covers(tedges, src)
    if not covering:
        if acc is not None:
            acc.count("rebin target does not cover the histogram (outside the property; executed, not judged)")
    elif not _close(float(r.sum()), total):
        viol.append(("C14/%s/total-not-conserved" % site, case, {"source_total": total, "rebinned_total": float(r.sum()), "rebinned": r.to_numpy()}))
    if tedges is not None and tedges == src and not _close(r.to_numpy(), counts):
        viol.append(("C14/rebin_histogram/identity", case, {"got": r.to_numpy(), "expected": counts}))
    if via is not None and covering:
        r1 = _call(site + "/first-step", lambda: rebin_histogram(h, _bins(II(via))), viol, case)
        r2 = None if r1 is None else _call(site + "/second-step", lambda: rebin_histogram(r1, _bins(tgt)), viol, case)
        if acc is not None:
            acc.evaluations += 2
        if r2 is not None and not _close(r2.to_numpy(), r.to_numpy()):
            viol.append(("C14/rebin_histogram/composition", case, {"via": via, "two_steps": r2.to_numpy(), "direct": r.to_numpy()}))
    if acc is not None:
        acc.outcomes.add(hash(tuple(round(float(x), 9) for x in r.to_numpy())))
    return viol


def eval_rebin2d(case, acc=None):
    import pandas as pd
    from pylife.utils.histogram import rebin_histogram
    counts, tgt = case["counts"], case["tgt"]
    viol = []
    xi, yi = pd.IntervalIndex.from_breaks(REBIN2D_SRC["x"]), pd.IntervalIndex.from_breaks(REBIN2D_SRC["y"])
    h = pd.Series([float(c) for c in counts], index=pd.MultiIndex.from_product([xi, yi], names=["a", "b"]))
    site = "rebin_histogram/%s" % _tgt_class(tgt) if _tgt_class(tgt) == "single-interval-target" else "rebin_histogram-2d/%s" % _tgt_class(tgt)
    r = _call(site, lambda: rebin_histogram(h, _bins(tgt)), viol, case)
    if acc is not None:
        acc.evaluations += 1
    if r is None:
        return viol
    if tgt["t"] == "int":
        covering = True
    elif tgt["t"] == "mi":
        covering = ref.covers(tgt["x"], REBIN2D_SRC["x"]) and ref.covers(tgt["y"], REBIN2D_SRC["y"])
    else:
        covering = ref.covers(tgt["e"], REBIN2D_SRC["x"]) and ref.covers(tgt["e"], REBIN2D_SRC["y"])
    total = float(sum(counts))
    if not covering:
        if acc is not None:
            acc.count("rebin target does not cover the histogram (outside the property; executed, not judged)")
    elif not _close(float(r.sum()), total):
        viol.append(("C14/%s/total-not-conserved" % site, case, {"source_total": total, "rebinned_total": float(r.sum())}))
    if tgt["t"] == "mi":
        # the target binning names its levels: listing them in the other order asks for the same histogram
        swapped = _bins(tgt).reorder_levels(["b", "a"])
        r2 = _call(site + "/target-levels-in-other-order", lambda: rebin_histogram(h, swapped), viol, case)
        if acc is not None:
            acc.evaluations += 1
        if r2 is not None:
            same = _call(site + "/target-levels-in-other-order", lambda: r2.reorder_levels(list(r.index.names)).reindex(r.index), viol, case)
            if same is not None and not _close(same.to_numpy(), r.to_numpy()):
                viol.append(("C14/%s/target-levels-in-other-order" % site, case,
                             {"levels_a_b": r.to_numpy(), "levels_b_a": same.to_numpy(), "total": total}))
    if tgt["t"] == "mi" and tgt["x"] == REBIN2D_SRC["x"] and tgt["y"] == REBIN2D_SRC["y"]:
        back = _call(site, lambda: r.reorder_levels(["a", "b"]).reindex(h.index), viol, case)
        if back is not None and not _close(back.to_numpy(), h.to_numpy()):
            viol.append(("C14/rebin_histogram-2d/identity", case, {"got": back.to_numpy(), "expected": h.to_numpy()}))
    if acc is not None:
        acc.outcomes.add(hash(tuple(round(float(x), 9) for x in r.to_numpy())))
    return viol


def eval_combine(case, acc=None):
    """case: hists = [[edges, counts], ...] (1-D) or 'two_d': [[counts4], [counts_k, rows]]"""
    import pandas as pd
    from pylife.utils.histogram import combine_histogram
    viol = []
    if case.get("two_d"):
        xi, yi = pd.IntervalIndex.from_breaks(REBIN2D_SRC["x"]), pd.IntervalIndex.from_breaks(REBIN2D_SRC["y"])
        full = pd.MultiIndex.from_product([xi, yi], names=["a", "b"])
        hs = [pd.Series([float(c) for c in cs], index=full[:len(cs)]) for cs in case["two_d"]]
        total = float(sum(sum(cs) for cs in case["two_d"]))
        site = "combine_histogram-2d"
    else:
        hs = [_hist1d(e, c) for e, c in case["hists"]]
        total = float(sum(sum(c) for _, c in case["hists"]))
        site = "combine_histogram"
    r = _call(site, lambda: combine_histogram(hs, method="sum"), viol, case)
    if acc is not None:
        acc.evaluations += 1
    if r is None:
        return viol
    if float(r.sum()) != total:
        viol.append(("C14/%s/grand-total" % site, case, {"inputs_total": total, "combined_total": float(r.sum()), "combined": r.to_numpy()}))
    if not case.get("two_d") and len(hs) >= 2:
        # the documented preparation: bring all histograms onto ONE common binning first (classes a histogram does not
        # reach are marked NaN with nan_default=True), then combine: NaN marks "no data", the counts of the others stay
        from pylife.utils.histogram import rebin_histogram
        lo = float(min(iv.left for h in hs for iv in h.index)) - 1.0
        # (the later histograms are shifted by 1, 2, ... so that the inputs do not cover the same classes)
        shifted = [hs[0]] + [pd.Series(h.to_numpy(), index=pd.IntervalIndex.from_arrays(h.index.left + 1.0 * k, h.index.right + 1.0 * k, name=h.index.name))
                             for k, h in enumerate(hs[1:], start=1)]
        hi = float(max(iv.right for h in shifted for iv in h.index)) + 1.0
        common = pd.IntervalIndex.from_breaks([lo + k for k in range(int(round(hi - lo)) + 1)])
        rb = _call(site + "/nan-marked-common-binning", lambda: [rebin_histogram(h, common, nan_default=True) for h in shifted], viol, case)
        if rb is not None:
            r2 = _call(site + "/nan-marked-common-binning", lambda: combine_histogram(rb, method="sum"), viol, case)
            if acc is not None:
                acc.evaluations += len(rb) + 1
            if r2 is not None and abs(float(np.nansum(r2.to_numpy())) - total) > 1e-9 * max(total, 1.0):
                viol.append(("C14/%s/nan-marked-common-binning/grand-total" % site, case,
                             {"inputs_total": total, "rebinned": [h.to_numpy() for h in rb], "combined": r2.to_numpy()}))
    if float(r.sum()) == total and not case.get("two_d") and len(r):
        # the documented next step: re-bin the combined histogram (whose classes may overlap / contain one another)
        # to gap-free binnings that cover it; the total must survive
        from pylife.utils.histogram import rebin_histogram
        lo, hi = float(min(iv.left for iv in r.index)), float(max(iv.right for iv in r.index))
        for nb in (1, 3, 6):
            tgt = pd.IntervalIndex.from_breaks([lo + (hi - lo) * k / nb for k in range(nb)] + [hi])
            rr = _call(site + "->rebin_histogram", lambda: rebin_histogram(r, tgt), viol, case)
            if acc is not None:
                acc.evaluations += 1
            if rr is not None and abs(float(rr.sum()) - total) > 1e-9 * max(total, 1.0):
                viol.append(("C14/%s->rebin_histogram/total" % site, case,
                             {"combined_classes": [str(iv) for iv in r.index], "combined": r.to_numpy(), "target_classes": nb,
                              "total_before": total, "total_after": float(rr.sum())}))
                break
    if acc is not None:
        acc.outcomes.add(hash((tuple(map(str, r.index)), tuple(float(x) for x in r.to_numpy()))))
    return viol


# ------------------------------------------------------------------------------------------------ driver
EVAL = {"derived": eval_derived, "scaleshift": eval_scaleshift, "hist": eval_hist, "recorder": eval_recorder, "lh": eval_lh,
        "rebin": eval_rebin, "rebin2d": eval_rebin2d, "combine": eval_combine}


def _run(acc, case, nontrivial):
    acc.cases += 1
    if nontrivial:
        acc.nontrivial += 1
    for key, c, detail in EVAL[case["kind"]](case, acc):
        acc.violation(key, c, detail)


def run_shard(shard):
    acc = Acc()
    kind = shard[0]
    if kind == "derived":
        for rows in shard[1]:
            nt = any(f != t for f, t in rows)
            for form, cycles, layout in (("fromto", None, "plain"), ("rangemean", None, "plain"), ("fromto", CYC, "multi"), ("rangemean", CYC, "named"),
                                         ("rangemean", CYC, "repeated"), ("fromto", CYC, "repeated")):
                _run(acc, {"kind": "derived", "rows": rows, "form": form, "cycles": cycles, "layout": layout}, nt)
        acc.sample({"kind": "derived", "first_collective": shard[1][0], "collectives": len(shard[1])})
    elif kind == "scaleshift":
        for rows in shard[1]:
            nt = any(f != t for f, t in rows)
            if shard[2] == "scalar":
                for form, cycles, layout in (("fromto", None, "plain"), ("rangemean", CYC, "named")):
                    for what, ops in (("scale", SCALES), ("shift", SHIFTS)):
                        for op in ops:
                            _run(acc, {"kind": "scaleshift", "rows": rows, "form": form, "cycles": cycles, "layout": layout, "op": what, "operand": op}, nt)
            else:
                for what, ops in (("scale", LEVEL_SCALES + SCALES[2:]), ("shift", LEVEL_SHIFTS + SHIFTS[:1])):
                    for op in ops:
                        _run(acc, {"kind": "scaleshift", "rows": rows, "form": "fromto", "cycles": CYC, "layout": "multi", "op": what, "operand": op}, nt)
    elif kind == "hist":
        _, block, mode, tier = shard
        for rows in block:
            rng, mean = _spec_values(rows)
            if mode == "axis":
                for name, rspec, hspec in AXIS_SPECS:
                    _run(acc, {"kind": "hist", "rows": rows, "cycles": None, "layout": "axis", "name": name, "rspec": rspec, "hspec": hspec}, True)
                continue
            for name, rspec, hspec in (SPECS if mode == "all" else MULTISET_SPECS[tier]):
                e = _given_edges(rspec or hspec, 0)
                nt = True if e is None else _nontrivial_1d(rng, e)
                _run(acc, {"kind": "hist", "rows": rows, "cycles": None, "layout": "plain", "name": name, "rspec": rspec, "hspec": hspec}, nt)
            name, rspec, hspec = SPECS[3]
            _run(acc, {"kind": "hist", "rows": rows, "cycles": CYC, "layout": "plain", "name": name, "rspec": rspec, "hspec": hspec}, False)
        acc.sample({"kind": "hist", "mode": mode, "first_collective": block[0], "collectives": len(block)})
    elif kind == "recorder":
        prepare(None)
        for rows in shard[1]:
            for spec in REC_SPECS:
                _run(acc, {"kind": "recorder", "rows": rows, "spec": spec}, True)
    elif kind == "lh":
        for geom in LH_GEOMS:
            for loc in ("mid", "left", "right"):
                _run(acc, {"kind": "lh", "geom": geom, "loc": loc}, True)
            for what, ops in (("scale", SCALES), ("shift", SHIFTS)):
                for op in ops:
                    for loc in ("mid", "right"):
                        _run(acc, {"kind": "lh", "geom": geom, "loc": loc, "op": what, "operand": op}, True)
            for what, ops in (("scale", LEVEL_SCALES), ("shift", LEVEL_SHIFTS)):
                for op in ops:
                    _run(acc, {"kind": "lh", "geom": geom, "loc": "mid", "op": what, "operand": op, "elements": [10, 20]}, True)
            _run(acc, {"kind": "lh", "geom": geom, "loc": "mid", "elements": [10, 20]}, True)
        acc.sample({"kind": "lh", "geometries": len(LH_GEOMS)})
    elif kind == "rebin":
        _, tier, si, cvs = shard
        rb = REBIN[tier]
        src = rb["sources"][si]
        for counts in cvs:
            for tgt in rb["targets"]:
                cuts = any(e not in src for e in tgt if src[0] < e < src[-1])
                _run(acc, {"kind": "rebin", "src": src, "counts": counts, "tgt": II(tgt)}, cuts)
                _run(acc, {"kind": "rebin", "src": src, "counts": counts, "tgt": II(tgt), "dtype": "int64"}, cuts)
                for via in rb["targets"]:
                    if via != tgt and ref.refines(via, tgt) and ref.covers(via, src):
                        _run(acc, {"kind": "rebin", "src": src, "counts": counts, "tgt": II(tgt), "via": via}, True)
                        _run(acc, {"kind": "rebin", "src": src, "counts": counts, "tgt": II(tgt), "via": via, "dtype": "int64"}, True)
            for n in rb["ints"]:
                _run(acc, {"kind": "rebin", "src": src, "counts": counts, "tgt": I(n)}, n != len(src) - 1)
        acc.sample({"kind": "rebin", "source": src, "first_counts": cvs[0], "targets": len(rb["targets"]) + len(rb["ints"])})
    elif kind == "rebin2d":
        for counts in shard[1]:
            for tgt in REBIN2D_TGT:
                _run(acc, {"kind": "rebin2d", "counts": counts, "tgt": tgt}, True)
    elif kind == "combine":
        _, tier, block = shard
        hists = [[b, list(c)] for b in COMBINE_BINNINGS for c in itertools.product((0.0, 1.0, 5.0), repeat=len(b) - 1)]
        for h1 in block:
            _run(acc, {"kind": "combine", "hists": [h1]}, False)
            for h2 in hists:
                shared = any((h1[0][i], h1[0][i + 1]) in zip(h2[0], h2[0][1:]) for i in range(len(h1[0]) - 1))
                _run(acc, {"kind": "combine", "hists": [h1, h2]}, shared)
            if tier == "thorough":
                small = [h for h in hists if all(c in (0.0, 5.0) for c in h[1])]
                if h1 in small:
                    for h2 in small:
                        for h3 in small:
                            _run(acc, {"kind": "combine", "hists": [h1, h2, h3]}, True)
        if block and block[0] == hists[0]:
            for c1 in itertools.product((0.0, 1.0, 5.0), repeat=4):
                for c2 in ((1.0, 5.0), (0.0, 5.0, 1.0), (5.0, 1.0, 0.0, 1.0), ()):
                    _run(acc, {"kind": "combine", "two_d": [list(c1), list(c2)]}, True)
    return acc


def replay(case):
    return [(k, d) for k, _, d in EVAL[case["kind"]](case)]
