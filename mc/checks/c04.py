"""C04 - the second HCM pass counts exactly the steady-state hystereses of the repeated sequence.

History search on the real FKMNonlinearDetector + FKMNonlinearRecorder: for every load sequence of the
scope the history  process_hcm_first(s), process_hcm_second(s) x3  is executed; after every transition the
recorded hystereses are checked against the periodic rainflow reference (mc/refs/periodic_rainflow.py).
"""
import itertools
from collections import Counter

import numpy as np

from mc import build_ext
from mc.explore import Acc, chunked, h64
from mc.refs.periodic_rainflow import periodic_cycles, junction_features

ID = "C04"
LEVEL = "model_checking"
RULE = ("all load sequences of length 2..n over 100*{-2..2} (thorough: also 100*{-3..3}) with >=2 distinct values; history = "
        "first pass + three second passes on one live detector; every single non-reversal insertion (copy / midpoint in every "
        "cyclic gap, the wrap-around gap on both sides of the junction) for the shorter bases; a stub law on the shorter "
        "sequences; non-trivial = sequence with a non-benign junction class or >=2 steady-state cycles")
ASSUMPTIONS = [
    "the periodic four-point count started at the largest |load| is the definition of 'closed cycles of the endlessly repeated sequence'",
    "counting decisions depend on loads only (checked: a linear stub law must give the same load multisets)",
    "integer multiples of 100 and their midpoints are exact in floating point",
]
SCALE = 100.0
A5 = (-2, -1, 0, 1, 2)
A7 = (-3, -2, -1, 0, 1, 2, 3)
# near ties: distinct loads closer than any plausible relative tolerance but far above the detector's absolute 1e-12
# (units of SCALE: 1000, 1000.0005, 1000.001 and their negatives, +-500)
NT = (-10.00001, -10.000005, -10, -5, 5, 10, 10.000005, 10.00001)


def bounds(tier):
    if tier == "quick":
        return [{"alphabet": [SCALE * a for a in A5], "n": [2, 5], "passes": "first + 3x second", "refinement_base_n_max": 4, "stub_law_n_max": 4},
                {"alphabet": [SCALE * a for a in A7], "n": [2, 4], "only": "sequences containing +-300", "passes": "first + 3x second"},
                {"alphabet": [SCALE * a for a in NT], "n": [2, 4], "what": "near ties (5e-7 relative apart)", "passes": "first + 3x second"}]
    return [{"alphabet": [SCALE * a for a in A5], "n": [2, 7], "passes": "first + 3x second", "refinement_base_n_max": 5, "stub_law_n_max": 5},
            {"alphabet": [SCALE * a for a in A7], "n": [2, 5], "passes": "first + 3x second"},
            {"alphabet": [SCALE * a for a in NT], "n": [2, 5], "what": "near ties (5e-7 relative apart)", "passes": "first + 3x second"}]


def prepare(tier):
    build_ext.ensure()


def _seqs(alpha, n):
    for s in itertools.product(alpha, repeat=n):
        if len(set(s)) >= 2:
            yield s


def shards(tier):
    out = []
    if tier == "quick":
        plan = [(A5, 2, 5, 4, 4), (A7, 2, 4, 0, 0), (NT, 2, 4, 0, 0)]
    else:
        plan = [(A5, 2, 7, 5, 5), (A7, 2, 5, 0, 0), (NT, 2, 5, 0, 0)]
    for alpha, nmin, nmax, nref, nstub in plan:
        for n in range(nmin, nmax + 1):
            seqs = list(_seqs(alpha, n))
            if alpha is A7:
                seqs = [s for s in seqs if max(abs(v) for v in s) == 3]     # the rest is in the A5 part
            for block in chunked(seqs, 60 if n <= 5 else 120):
                out.append((block, n <= nref, n <= nstub))
    return out


# -- system under test ------------------------------------------------------------------------------------
_LAWS = {}


class StubLaw:
    """Linear 'notch law' with the interface the detector uses: stress = load, strain = stress / 1000."""
    ramberg_osgood_relation = None

    def stress(self, load, **kw):
        return load * 1.0

    def strain(self, stress, load):
        return stress / 1000.0

    def stress_secondary_branch(self, delta_load, **kw):
        return delta_load * 1.0

    def strain_secondary_branch(self, delta_stress, delta_load):
        return delta_stress / 1000.0


def _law(kind, lmax):
    key = (kind, lmax)
    if key not in _LAWS:
        if kind == "stub":
            _LAWS[key] = StubLaw()
        else:
            import pylife.materiallaws.notch_approximation_law as NAL
            _LAWS[key] = NAL.Binned(NAL.ExtendedNeuber(206e3, 1184.0, 0.187, 3.5), lmax, 100)
    return _LAWS[key]


def run_history(seq, kind="binned", passes=4):
    """first pass + (passes-1) second passes on one live detector; returns per-pass rows and state hashes"""
    import warnings
    import pylife.stress.rainflow.fkm_nonlinear as FN
    import pylife.stress.rainflow.recorders as RFR
    warnings.simplefilter("ignore", RuntimeWarning)      # R = S_min / S_max with S_max = 0 in derived columns (not observed here)
    loads = np.array(seq, dtype=float)
    lmax = float(np.abs(loads).max()) * 1.25
    rec = RFR.FKMNonlinearRecorder()
    det = FN.FKMNonlinearDetector(recorder=rec, notch_approximation_law=_law(kind, lmax))
    states = []
    det.process_hcm_first(loads)
    states.append(_state(det))
    for _ in range(passes - 1):
        det.process_hcm_second(loads)
        states.append(_state(det))
    c = rec.collective
    rows = list(zip(c.run_index.tolist(), c.loads_min.tolist(), c.loads_max.tolist(),
                    [bool(x) for x in c.is_closed_hysteresis.tolist()]))
    return rows, states


def _state(det):
    rec = det.recorder
    return h64([[float(p.load_representative) for p in det._residuals], int(det._iz), int(det._ir), float(det._load_max_seen),
                np.asarray(det._sample_tail, dtype=float).tolist(),
                np.asarray(rec.loads_min, dtype=float).tolist(), np.asarray(rec.loads_max, dtype=float).tolist(),
                [bool(x) for x in rec._is_closed_hysteresis], list(rec._run_index)])


def _multiset(rows, run):
    return Counter((lo, hi) for r, lo, hi, closed in rows if r == run)


def _cls(seq):
    f = junction_features(seq)
    return "+".join(f) if f else "benign"


def check_sequence(useq, with_refinement, with_stub):
    """useq in alphabet units.  Returns (violations, evaluations, transitions, state hashes, info)"""
    seq = [SCALE * v for v in useq]
    viol = []
    cls = _cls(useq)
    exp = Counter({(SCALE * a, SCALE * b): k for (a, b), k in periodic_cycles(useq).items()})
    try:
        rows, states = run_history(seq)
    except Exception as e:  # noqa: BLE001
        return [("C04/raises-%s/%s" % (type(e).__name__, cls), {"error": str(e)[:200]})], 1, 1, [], {"cls": cls, "ncycles": 0}
    evals, trans = 4, 4
    got2 = _multiset(rows, 2)
    if got2 != exp:
        viol.append(("C04/pass2-cycles/" + cls, {"pass2": sorted(got2.elements()), "periodic_reference": sorted(exp.elements())}))
    if any(r == 2 and not closed for r, lo, hi, closed in rows):
        viol.append(("C04/half-hysteresis-in-pass2/" + cls, {"rows": [r for r in rows if r[0] == 2]}))
    if any(r > 2 and not closed for r, lo, hi, closed in rows):
        viol.append(("C04/half-hysteresis-in-later-pass/" + cls, {"rows": [r for r in rows if r[0] > 2 and not r[3]]}))
    for r, lo, hi, closed in rows:
        if not closed and lo != -hi:
            viol.append(("C04/half-hysteresis-asymmetric/" + cls, {"row": [r, lo, hi]}))
            break
    # differential: the state reached after pass 2 and after pass 3 must count the same period again
    for later in (3, 4):
        if _multiset(rows, later) != got2:
            viol.append(("C04/pass%d-differs-from-pass2/%s" % (later, cls),
                         {"pass2": sorted(got2.elements()), "later": sorted(_multiset(rows, later).elements())}))
            break
    if with_stub:
        try:
            rows_s, _ = run_history(seq, kind="stub", passes=2)
            evals += 2
            trans += 2
            if [(r, lo, hi, c) for r, lo, hi, c in rows_s] != [(r, lo, hi, c) for r, lo, hi, c in rows if r <= 2]:
                viol.append(("C04/law-dependent-counting/" + cls, {"stub": rows_s, "binned": [r for r in rows if r[0] <= 2]}))
        except Exception as e:  # noqa: BLE001
            viol.append(("C04/stub-raises-%s/%s" % (type(e).__name__, cls), {"error": str(e)[:200]}))
    if with_refinement:
        n = len(seq)
        for i in range(n):
            a, b = seq[i], seq[(i + 1) % n]
            for kind, v in (("copy", a), ("mid", (a + b) / 2.0)):
                if i < n - 1:
                    variants = [("interior", seq[:i + 1] + [v] + seq[i + 1:])]
                else:
                    variants = [("junction-after-last", seq + [v]), ("junction-before-first", [v] + seq)]
                for where, ref_seq in variants:
                    if len(set(ref_seq)) < 2:
                        continue
                    try:
                        rows_r, st_r = run_history(ref_seq, passes=2)
                    except Exception as e:  # noqa: BLE001
                        viol.append(("C04/refinement-raises-%s/%s" % (type(e).__name__, where), {"refined": ref_seq, "error": str(e)[:200]}))
                        continue
                    evals += 2
                    trans += 2
                    states += st_r
                    g = _multiset(rows_r, 2)
                    if g != got2:
                        viol.append(("C04/refinement/%s-%s/%s" % (where, kind, _cls([v_ / SCALE for v_ in ref_seq])), {"refined": ref_seq, "pass2_refined": sorted(g.elements()),
                                                                               "pass2_base": sorted(got2.elements())}))
    return viol, evals, trans, states, {"cls": cls, "ncycles": sum(exp.values()), "pass2": sorted(got2.elements())}


def run_shard(shard):
    prepare(None)
    block, with_ref, with_stub = shard
    acc = Acc()
    seen = set()
    for useq in block:
        acc.cases += 1
        viol, evals, trans, states, info = check_sequence(list(useq), with_ref, with_stub)
        acc.evaluations += evals
        acc.transitions += trans
        seen.update(states)
        acc.max_depth = 4
        acc.count("class:" + info["cls"])
        if info["cls"] != "benign" or info["ncycles"] >= 2:
            acc.nontrivial += 1
        if not acc.samples and info["ncycles"] >= 2 and info["cls"] != "benign":
            acc.sample({"sequence": [SCALE * v for v in useq], "history": ["process_hcm_first", "process_hcm_second x3"],
                        "junction_class": info["cls"], "pass2_hystereses": info.get("pass2")})
        acc.outcomes.add(hash(tuple(info.get("pass2", ()))))
        for key, detail in viol:
            acc.violation(key, {"sequence": list(useq), "refinement": with_ref, "stub": with_stub}, detail)
    acc.state_set = seen
    return acc


def replay(case):
    viol, _, _, _, _ = check_sequence(case["sequence"], case.get("refinement", False), case.get("stub", False))
    return viol
