"""C18 - Woehler test-data analysis is equivariant and recovers exact synthetic curves.

Every synthetic test series of a stated finite family (Basquin line k x finite-zone level subset x repetitions x
jitter pattern x run-out configuration) is analysed by the four real analyzers; every member of a stated finite
set of transformations (load scale, cycle scale, row permutation) is applied and the analysis repeated.

Clauses (keys):
  load-scaling     SD*c ; k_1, TN, TS unchanged            (ND under load scaling: property silent -> counted)
  cycle-scaling    ND*c ; SD, k_1, TN, TS unchanged
  permutation      everything unchanged (fresh RangeIndex, and once with the row labels carried along)
  exact-line       fitted fractures exactly on a line (jitter "none"; for Elementary/Probit/MaxLikeInf also: only two
                   finite-zone fractures): k_1 = slope of that line, TN = 1, TS = 1 where TS is derived from the
                   finite-zone scatter
  zones            finite/infinite zone partition the rows, split at finite_infinite_transition
  likelihood       log L(MaxLike result) >= log L(Elementary result) on the same data
"""
import itertools
import math
import warnings

import numpy as np

from mc.explore import Acc
from mc.refs import woehler as ref

warnings.filterwarnings("ignore", category=SyntaxWarning)      # pyLife docstrings with '\*' (compiled in every worker)

ID = "C18"
LEVEL = "exploration"
RULE = ("all series of the family k x level-subset(>=2 of 4) x repetitions x jitter pattern x run-out configuration; "
        "each (series, analyzer, transformation) is one case, plus one 'base' case per (series, analyzer) carrying the "
        "exact-line / likelihood / zone clauses; transformations: stated load and cycle factors, reversed / rotated / "
        "adjacent-transposed rows, all permutations for short series, one permutation keeping the row labels; "
        "non-trivial = the analyzer accepted the base series and returned finite k_1, SD, ND, the transformation is "
        "not the identity, and (MaxLike) the optimiser moved away from its start")
ASSUMPTIONS = [
    "the likelihood maximisers use Nelder-Mead with absolute xtol=ftol=1e-4: two runs are 'the same estimate' when "
    "their optima, mapped back to the base data, differ by <= 1e-3 in log-likelihood (reference likelihood in "
    "mc/refs/woehler.py) and by <= 5 % in the parameters the data identify; Elementary/Probit are closed-form "
    "regressions and are compared at rtol 1e-9",
    "documented ValueErrors (too few levels / fractures / mixed levels) are a refusal, not a result: counted, and "
    "only required to be the same under every transformation",
    "TS = 1 for exact-line data is only required where TS is derived from the finite-zone scatter; where it is "
    "estimated from run-out proportions (Probit with >= 2 infinite levels, MaxLikeInf, MaxLikeFull with >= 2 mixed "
    "levels) the Basquin line says nothing about it",
]

ANALYZERS = ("Elementary", "Probit", "MaxLikeInf", "MaxLikeFull")
FAST = ("Elementary", "Probit")
ND0, SD0, LIMIT = 1e6, 200.0, 1e7
LEVELS = (250.0, 300.0, 350.0, 400.0)
JIT = (1.1, 0.9, 1.05, 0.95, 1.2, 0.8, 1.0, 1.02)
PARAMS = ("SD", "k_1", "TN", "TS", "ND")

# run-out configurations: list of (load, fracture) appended after the finite-zone rows.  'LOW' = lowest finite
# level, 'MID' = half way between the two lowest finite levels.
RO = {
    "none": [],
    "pure1": [(200.0, False), (200.0, False)],
    "pure2": [(200.0, False), (180.0, False), (180.0, False)],
    "mixed2": [(225.0, True), (225.0, True), (225.0, False), (210.0, True), (210.0, False), (210.0, False)],
    "mixed2b": [(230.0, True), (230.0, False), (215.0, True), (215.0, True), (215.0, False), (200.0, False)],
    "above": [("MID", False), (200.0, False)],
    # a level with run-outs only ABOVE the highest mixed level (and below the finite levels)
    "pure-above-mixed": [(235.0, False), (235.0, False), (225.0, True), (225.0, False), (210.0, True), (210.0, False), (210.0, False)],
    "mixedlow": [("LOW", False), (225.0, True), (225.0, False), (225.0, True)],
}
REJECT = ("MaxLikeHood: need at least", "Need at least two different load levels", "Cycle numbers must spread",
          "Need at least one fracture", "There must be a variance in fracture cycles")

RTOL_EXACT = 1e-9
# MaxLikeFull whose simplex starts on an Elementary estimate without scatter (finite-zone fractures exactly on a
# line): the likelihood is singular there; one defect, one key, whatever clause exposes it
ZERO_SCATTER_KEY = "C18/MaxLikeFull/zero-scatter-start"
RTOL_ML = 0.05
TS_RUNAWAY = 1e3          # a scatter range 1 : 1000 in load direction is not an estimate but a diverged simplex
DLL = 1e-3


# ---------------------------------------------------------------------------------------------- the space
def _subsets():
    out = []
    for n in (2, 3, 4):
        out += [list(c) for c in itertools.combinations(LEVELS, n)]
    return out


SUB6 = [[250.0, 300.0], [300.0, 400.0], [250.0, 400.0], [250.0, 300.0, 350.0], [300.0, 350.0, 400.0],
        [250.0, 300.0, 350.0, 400.0]]


def _tier(tier):
    if tier == "quick":
        return {
            "fast": {"k": (3.0, 5.0), "subsets": SUB6, "reps": (1, 2), "jit": (None, 3),
                     "ro": ("none", "pure1", "pure2", "mixed2", "above", "mixedlow", "pure-above-mixed"),
                     "load_c": (0.5, 3.0, 1000.0), "cycle_c": (7.0, 0.01), "perms": "some", "all_perms_upto": 4},
            "ml": {"k": (5.0,), "subsets": [[250.0, 300.0, 350.0], [250.0, 300.0, 350.0, 400.0]],
                   "reps": (1, 2), "jit": (0, 3), "ro": ("mixed2", "pure1"),
                   "load_c": (3.0,), "cycle_c": (7.0, 1e-7), "perms": "few"},
            "ml_degenerate": [
                [{"k": 5.0, "levels": [250.0, 300.0, 350.0, 400.0], "reps": 1, "jit": None, "ro": "mixed2"}, ["load", 3.0]],
                [{"k": 3.0, "levels": [300.0, 400.0], "reps": 1, "jit": 3, "ro": "mixed2"}, ["cycles", 0.01]]],
        }
    deg = []
    for k, lv, j, ro in ((5.0, [250.0, 300.0, 350.0, 400.0], None, "mixed2"), (3.0, [300.0, 400.0], 3, "mixed2"),
                         (3.0, [250.0, 300.0, 350.0, 400.0], None, "none"), (9.0, [300.0, 400.0], 0, "mixed2b"),
                         (5.0, [250.0, 300.0, 350.0], None, "pure1"), (3.0, [250.0, 300.0, 350.0], 0, "none")):
        n = len(series_rows({"k": k, "levels": lv, "reps": 1, "jit": j, "ro": ro}))
        for xf in (["load", 3.0], ["cycles", 0.01], ["perm", list(reversed(range(n)))]):
            deg.append([{"k": k, "levels": lv, "reps": 1, "jit": j, "ro": ro}, xf])
    return {
        "fast": {"k": (3.0, 5.0, 9.0), "subsets": _subsets(), "reps": (1, 2), "jit": (None, 0, 3, 5),
                 "ro": tuple(RO), "load_c": (0.5, 3.0, 1000.0), "cycle_c": (7.0, 0.01), "perms": "full", "all_perms_upto": 5},
        "ml": {"k": (3.0, 5.0, 9.0), "subsets": [[250.0, 300.0], [250.0, 300.0, 350.0], [300.0, 350.0, 400.0],
                                                 [250.0, 300.0, 350.0, 400.0]],
               "reps": (1, 2), "jit": (0, 3), "ro": ("mixed2", "pure1", "mixedlow"),
               "load_c": (1000.0,), "cycle_c": (7.0, 0.01, 1e-7), "perms": "reversed"},
        "ml_degenerate": deg,
    }


def bounds(tier):
    t = _tier(tier)
    out = {"ND": ND0, "SD": SD0, "run_out_cycles": LIMIT, "levels": LEVELS, "jitter_table": JIT,
           "run_out_configurations": {k: RO[k] for k in RO}}
    out["Elementary/Probit (+ MaxLikeInf on the series whose finite-zone fractures are exactly on a line, scale / reversed / carried-label transformations only)"] = t["fast"]
    out["MaxLikeInf/MaxLikeFull (jittered series with >= 3 finite-zone fractures)"] = t["ml"]
    out["MaxLikeFull on zero-scatter / no-run-out starts (slow: the simplex never converges), (series, transformation)"] = t["ml_degenerate"]
    out["histories B, A, B in one fresh interpreter (result of B must not change)"] = HISTORIES[:3 if tier == "quick" else len(HISTORIES)]
    out["histories on one kept FatigueData object (analyzers in sequence, transition moved in between; each result must equal that of fresh objects)"] = SHARED[:SHARED_QUICK if tier == "quick" else len(SHARED)]
    out["extra transformation"] = "duplabels: same rows, non-unique index labels"
    out["tolerances"] = {"Elementary/Probit rtol": RTOL_EXACT, "MaxLike parameter rtol": RTOL_ML, "MaxLike |dlogL|": DLL}
    return out


def _series_of(spec):
    for k in spec["k"]:
        for lv in spec["subsets"]:
            for reps in spec["reps"]:
                for jit in spec["jit"]:
                    for ro in spec["ro"]:
                        yield {"k": k, "levels": list(lv), "reps": reps, "jit": jit, "ro": ro}


def series_rows(s):
    """Rows (load, cycles, fracture) of a series descriptor."""
    rows, i = [], 0
    lv = sorted(s["levels"])

    def cyc(load):
        nonlocal i
        n = ND0 * (load / SD0) ** (-s["k"])
        if s["jit"] is not None:
            n *= JIT[(i + s["jit"]) % len(JIT)]
        i += 1
        return n
    for load in s["levels"]:
        for _ in range(s["reps"]):
            rows.append((load, cyc(load), True))
    for load, fracture in RO[s["ro"]]:
        if load == "LOW":
            load = lv[0]
        elif load == "MID":
            load = (lv[0] + lv[1]) / 2.0
        rows.append((load, cyc(load) if fracture else LIMIT, fracture))
    return rows


def _perms(n, mode, all_upto=0):
    """Non-identity permutations (tuples p: new row j = old row p[j])."""
    ident = tuple(range(n))

    def swap(i):
        return ident[:i] + (ident[i + 1], ident[i]) + ident[i + 2:]
    out = [tuple(reversed(ident))]
    if mode == "reversed":
        pass
    elif mode == "few":          # reversed, rotate by one
        out += [ident[1:] + ident[:1]]
    elif mode == "some":         # reversed, rotations by 1 / n//2 / n-1, first / middle / last adjacent transposition
        out += [ident[r:] + ident[:r] for r in (1, n // 2, n - 1)] + [swap(i) for i in (0, (n - 1) // 2, n - 2)]
    else:                        # reversed, all rotations, all adjacent transpositions
        out += [ident[r:] + ident[:r] for r in range(1, n)] + [swap(i) for i in range(n - 1)]
    if n <= all_upto:
        out += list(itertools.permutations(ident))
    seen, res = {ident}, []
    for p in out:
        if p not in seen:
            seen.add(p)
            res.append(p)
    return res


def transformations(n, spec):
    out = [["load", c] for c in spec["load_c"]] + [["cycles", c] for c in spec["cycle_c"]]
    # the frame WITHOUT a fracture column (run-outs are then the tests that reached the largest cycle number - in this
    # family exactly the rows marked as run-outs, provided there is one), cycles scaled: same clause as cycle scaling
    if spec.get("all_perms_upto"):           # the closed-form analyzers' group only (Elementary, Probit)
        out += [["nofrac", c] for c in (1.0, 100.0) + tuple(spec["cycle_c"])]    # 100: every cycle number beyond any absolute limit
    out += [["perm", list(p)] for p in _perms(n, spec.get("perms", "full"), spec.get("all_perms_upto", 0))]
    out.append(["permkeep", list(reversed(range(n)))])
    # the same rows in the same order, but with index labels that are NOT unique (two test campaigns joined with
    # pd.concat without ignore_index): labels carry no meaning, everything must stay as it is
    out.append(["duplabels", [i % max(2, n // 2) for i in range(n)]])
    return out


def on_line(s, rows, an=None):
    """Reference-side rule: do the fractures the analyzer fits its line to lie exactly on one Basquin line?
    Elementary/Probit/MaxLikeInf fit the finite-zone fractures (no jitter, or only two of them on two levels);
    MaxLikeFull fits all fractures (no jitter).  -> slope k of that line or None"""
    if an == "MaxLikeFull" and s["jit"] is not None:
        return None
    rel = ref.relevant_rows(rows)
    _, fin, _ = ref.zones(rel)
    pts = [rel[i] for i in fin if rel[i][2]]
    if len(set(p[0] for p in pts)) < 2:
        return None
    if s["jit"] is None:
        return s["k"]
    if len(pts) == 2:
        (l1, n1, _), (l2, n2, _) = pts
        return -(math.log10(n1) - math.log10(n2)) / (math.log10(l1) - math.log10(l2))
    return None


def _ml_series(t):
    """MaxLike family: jittered series with >= 3 finite-zone fractures (the others start the simplex on a
    zero-scatter estimate, never converge and cost 10-20 s per run: they are represented by 'ml_degenerate')."""
    for s in _series_of(t["ml"]):
        rows = series_rows(s)
        if on_line(s, rows) is None and len(ref.zones(ref.relevant_rows(rows))[1]) >= 3:
            yield s


def shards(tier):
    """The slow shards are scheduled first (wall time: zero-scatter MaxLikeFull runs, then the MaxLike family, one
    shard per series and analyzer, simplest first), then Elementary/Probit simplest first."""
    t = _tier(tier)
    out = [("mldeg", tier, [s], xf) for s, xf in t["ml_degenerate"]]
    out += [("history", tier, [h], None) for h in HISTORIES[:3 if tier == "quick" else len(HISTORIES)]]
    out += [("shared", tier, [h], None) for h in SHARED[:SHARED_QUICK if tier == "quick" else len(SHARED)]]
    for s in sorted(_ml_series(t), key=lambda s: len(series_rows(s))):
        out.append(("ml", tier, [s], "MaxLikeFull"))
        out.append(("ml", tier, [s], "MaxLikeInf"))
    fast = sorted(_series_of(t["fast"]), key=lambda s: (len(series_rows(s)), s["jit"] is not None))
    block, cost = [], 0
    for s in fast:
        c = len(transformations(len(series_rows(s)), t["fast"]))
        if block and cost + c > 400:
            out.append(("fast", tier, block, None))
            block, cost = [], 0
        block.append(s)
        cost += c
    if block:
        out.append(("fast", tier, block, None))
    return out


# Histories over several analyzer objects in ONE interpreter: analyse B, analyse another data set A whose analysis takes
# a different branch (fewer than two mixed levels -> scatter fixed from the elementary estimate), analyse B again.
# Each data set's result must not depend on what was analysed before it.  Every history runs in its own fresh
# interpreter, so that a leak it provokes cannot disturb (or be hidden by) the other cases of the worker process.
_B1 = {"k": 5.0, "levels": [250.0, 300.0, 350.0], "reps": 2, "jit": 3, "ro": "mixed2"}
_B2 = {"k": 5.0, "levels": [250.0, 300.0, 350.0, 400.0], "reps": 1, "jit": 0, "ro": "mixed2"}
_A1 = {"k": 5.0, "levels": [250.0, 300.0, 350.0], "reps": 2, "jit": 3, "ro": "pure1"}
_A2 = {"k": 3.0, "levels": [250.0, 300.0, 350.0, 400.0], "reps": 1, "jit": 5, "ro": "above"}
# _A_TIES: the same design as _B1 without jitter - both specimens of a level break at exactly the same cycle number
# (ties in the pearl chain), and it has as many finite-zone fractures as _B1
_A_TIES = {"k": 5.0, "levels": [250.0, 300.0, 350.0], "reps": 2, "jit": None, "ro": "mixed2"}
HISTORIES = [{"an": "MaxLikeFull", "B": _B1, "A": _A1}, {"an": "MaxLikeInf", "B": _B1, "A": _A1},
             {"an": "Elementary", "B": _B1, "A": _A_TIES},
             {"an": "MaxLikeFull", "B": _B2, "A": _A2}, {"an": "MaxLikeFull", "B": _B1, "A": _A2},
             {"an": "Probit", "B": _B1, "A": _A1}, {"an": "Elementary", "B": _B2, "A": _A1}]


# Histories on ONE kept FatigueData object (the way the documentation uses the module: fd = df.fatigue_data; several
# analyzers on fd).  Steps: an analyzer name = construct it on the kept fd and analyse; ["again", i] = call analyze()
# once more on the analyzer object built in step i; ["transition", x] = fd.set_finite_infinite_transition(x).
# Oracle (differential, no expected values): every result equals, bit for bit, what the same analyzer returns for a
# fresh frame / fresh accessor brought to the same transition, and a result Series handed out earlier never changes.
_S_EXACT = {"k": 5.0, "levels": [250.0, 300.0, 350.0], "reps": 2, "jit": None, "ro": "mixed2"}
SHARED = [
    {"series": _B1, "steps": ["Elementary", "Probit", "Elementary"]},
    {"series": _B1, "steps": ["Elementary", "MaxLikeInf", "Elementary", "Probit"]},
    {"series": _S_EXACT, "steps": ["Probit", "Elementary", "MaxLikeInf", "Elementary"]},
    {"series": _B1, "steps": ["MaxLikeInf", ["transition", 260.0], ["again", 0], "Elementary"]},
    {"series": _B1, "steps": ["Elementary", "Probit", ["transition", 260.0], ["again", 0], ["again", 1]]},
    {"series": _B2, "steps": ["Probit", ["transition", 320.0], ["again", 0], "MaxLikeInf", ["transition", 230.0], ["again", 0], ["again", 3]]},
    {"series": _B1, "steps": ["MaxLikeFull", ["transition", 260.0], ["again", 0]]},
    {"series": _B2, "steps": ["Elementary", "MaxLikeFull", "Elementary"]},
]
SHARED_QUICK = 8


def _wc_dict(wc):
    return {p: float(wc[p]) for p in PARAMS}


def _same_wc(a, b):
    return all(a[p] == b[p] or (math.isnan(a[p]) and math.isnan(b[p])) for p in PARAMS)


def shared_case(h):
    """-> list of (key, detail)"""
    import pylife.materialdata.woehler as W
    rows = series_rows(h["series"])
    viol = []
    with warnings.catch_warnings():
        warnings.simplefilter("ignore")
        old = np.seterr(all="ignore")
        try:
            fd = _frame(rows).fatigue_data
            transition = None
            objs, handed_out = {}, []
            for i, st in enumerate(h["steps"]):
                if isinstance(st, (list, tuple)) and st[0] == "transition":
                    transition = float(st[1])
                    fd.set_finite_infinite_transition(transition)
                    continue
                if isinstance(st, (list, tuple)):
                    an, obj = objs[st[1]]
                else:
                    an, obj = st, getattr(W, st)(fd)
                    objs[i] = (an, obj)
                try:
                    res = obj.analyze()
                except Exception as e:          # noqa: BLE001
                    viol.append(("C18/%s/kept-fatigue-data/raises-%s" % (an, type(e).__name__), {"step": i, "msg": str(e)[:200]}))
                    break
                got = _wc_dict(res)
                fresh_fd = _frame(rows).fatigue_data
                if transition is not None:
                    fresh_fd.set_finite_infinite_transition(transition)
                want = _wc_dict(getattr(W, an)(fresh_fd).analyze())
                if not _same_wc(got, want):
                    viol.append(("C18/%s/kept-fatigue-data/differs-from-fresh-objects" % an,
                                 {"step": i, "steps": h["steps"], "kept": got, "fresh": want, "transition": transition}))
                for j, an_j, series_j, snap in handed_out:
                    if not _same_wc(_wc_dict(series_j), snap):
                        viol.append(("C18/%s/result-handed-out-earlier-changed" % an_j,
                                     {"handed_out_in_step": j, "changed_during_step": i, "was": snap, "is": _wc_dict(series_j)}))
                handed_out.append((i, an, res, got))
        finally:
            np.seterr(**old)
    seen, out = set(), []
    for k, d in viol:
        if k not in seen:
            seen.add(k)
            out.append((k, d))
    return out


def history_case(h):
    """B, A, B with one analyzer class in this interpreter.  -> list of (key, detail)"""
    first = run_an(h["an"], series_rows(h["B"]))
    between = run_an(h["an"], series_rows(h["A"]))
    again = run_an(h["an"], series_rows(h["B"]))
    if _outcome(first) != _outcome(again) or (first["status"] == "ok" and any(
            not (first["wc"][p] == again["wc"][p] or (math.isnan(first["wc"][p]) and math.isnan(again["wc"][p]))) for p in PARAMS)):
        return [("C18/%s/result-depends-on-previously-analysed-data" % h["an"],
                 {"first": first, "after_analysing_another_series": again, "the_other_series_gave": between})]
    return []


def run_history(h):
    """history_case in a fresh interpreter"""
    import json
    import os
    import subprocess
    import sys
    from mc import run as R
    code = ("import json,sys; sys.path[0:0]=[%r,%r]; from mc.checks import c18; "
            "print('HISTORY-RESULT '+json.dumps(c18.history_case(json.loads(sys.argv[1])), default=str))" %
            (os.path.join(R.REPO, "src"), R.VERIF))
    p = subprocess.run([sys.executable, "-c", code, json.dumps(h)], capture_output=True, text=True, cwd=R.VERIF)
    for line in p.stdout.splitlines():
        if line.startswith("HISTORY-RESULT "):
            return [tuple(x) for x in json.loads(line[len("HISTORY-RESULT "):])]
    raise RuntimeError("history subprocess failed:\n" + p.stdout[-1000:] + p.stderr[-3000:])


# ---------------------------------------------------------------------------------------------- running pyLife
def _frame(rows, labels=None):
    import pandas as pd
    df = pd.DataFrame({"load": [float(r[0]) for r in rows], "cycles": [float(r[1]) for r in rows],
                       "fracture": [bool(r[2]) for r in rows]})
    if labels == "nofrac":
        return df[["load", "cycles"]]
    if labels is not None:
        df.index = list(labels)
    return df


def apply_xf(rows, xf):
    """-> (rows', labels or None, load factor, cycle factor)"""
    if xf is None:
        return list(rows), None, 1.0, 1.0
    kind, arg = xf
    if kind == "load":
        return [(r[0] * arg, r[1], r[2]) for r in rows], None, arg, 1.0
    if kind == "cycles":
        return [(r[0], r[1] * arg, r[2]) for r in rows], None, 1.0, arg
    if kind == "nofrac":
        return [(r[0], r[1] * arg, r[2]) for r in rows], "nofrac", 1.0, arg
    if kind == "perm":
        return [rows[j] for j in arg], None, 1.0, 1.0
    if kind == "permkeep":
        return [rows[j] for j in arg], list(arg), 1.0, 1.0
    if kind == "duplabels":
        return list(rows), list(arg), 1.0, 1.0
    raise ValueError(kind)


def run_an(an, rows, labels=None):
    import pylife.materialdata.woehler as W
    with warnings.catch_warnings():
        warnings.simplefilter("ignore")
        old = np.seterr(all="ignore")
        try:
            wc = getattr(W, an)(_frame(rows, labels)).analyze()
            return {"status": "ok", "wc": {p: float(wc[p]) for p in PARAMS}}
        except ValueError as e:
            if str(e).startswith(REJECT):
                return {"status": "reject", "msg": str(e)[:50]}
            return {"status": "raise", "type": "ValueError", "msg": str(e)[:200]}
        except Exception as e:           # noqa: BLE001 - an exception where a value is expected is a finding
            return {"status": "raise", "type": type(e).__name__, "msg": str(e)[:200]}
        finally:
            np.seterr(**old)


def _close(a, b, rtol):
    if math.isnan(a) or math.isnan(b):
        return math.isnan(a) and math.isnan(b)
    if math.isinf(a) or math.isinf(b):
        return a == b
    return abs(a - b) <= rtol * max(abs(a), abs(b))


def _ts_from_finite_scatter(an, rows):
    """Reference-side rule: is the analyzer's TS derived from the pearl-chain scatter (or fixed to 1)?"""
    rel = ref.relevant_rows(rows)
    _, _, inf = ref.zones(rel)
    runouts = [r for r in rel if not r[2]]
    if an == "Elementary":
        return True
    if an == "Probit":
        return not runouts or len(set(rel[i][0] for i in inf)) < 2
    if an == "MaxLikeFull":
        fl = set(r[0] for r in rel if r[2])
        rl = set(r[0] for r in rel if not r[2])
        return not runouts or len(fl & rl) < 2
    return False


# ---------------------------------------------------------------------------------------------- clauses
def check_zones(rows, labels=None):
    """finite u infinite = all rows, disjoint, split at the reported transition (df.fatigue_data.*)."""
    import pylife.materialdata.woehler  # noqa: F401  (registers the accessor)
    viol = []
    df = _frame(rows, labels if labels is not None else range(100, 100 + len(rows)))
    for name, fd in (("fatigue_data", df.fatigue_data), ("irrelevant_runouts_dropped", df.fatigue_data.irrelevant_runouts_dropped())):
        trans = float(fd.finite_infinite_transition)
        fin, inf = list(fd.finite_zone.index), list(fd.infinite_zone.index)
        allrows = list(fd.load.index)            # the tests this accessor holds (all / after dropping irrelevant run-outs)
        if sorted(fin + inf) != sorted(allrows):
            viol.append(("C18/zones/not-a-partition", {"accessor": name, "finite": fin, "infinite": inf, "rows": allrows}))
            continue
        fin_loads, inf_loads = [float(x) for x in fd.finite_zone.load], [float(x) for x in fd.infinite_zone.load]
        if sorted(fin_loads + inf_loads) != sorted(float(x) for x in fd.load):
            viol.append(("C18/zones/not-a-partition", {"accessor": name, "finite_loads": fin_loads, "infinite_loads": inf_loads}))
            continue
        if any(not x > trans for x in fin_loads) or any(not x <= trans for x in inf_loads):
            viol.append(("C18/zones/split-not-at-transition", {"accessor": name, "transition": trans,
                                                                "finite_loads": fin_loads, "infinite_loads": inf_loads}))
    return viol


def _zones_checked(xf):
    """The zone clause is evaluated on the base frame, every scaled frame, the reversed frame and the frame with
    carried row labels (not on each of the many other permutations)."""
    return xf[0] != "nofrac" and (xf[0] != "perm" or xf[1] == sorted(xf[1], reverse=True))


def check_base(an, s, rows, base, el):
    """exact-line and likelihood clauses on the untransformed series.  -> (violations, counters)"""
    viol, cnt = [], []
    if base["status"] == "raise":
        return [("C18/%s/raises-%s" % (an, base["type"]), {"msg": base["msg"]})], cnt
    if base["status"] != "ok":
        return viol, ["rejected/%s" % an]
    wc = base["wc"]
    line_k = on_line(s, rows, an)
    if line_k is not None:
        if not _close(wc["k_1"], line_k, RTOL_EXACT if an != "MaxLikeFull" else 1e-6):
            viol.append((ZERO_SCATTER_KEY if an == "MaxLikeFull" else "C18/%s/exact-line/k_1" % an,
                         {"clause": "exact-line", "k_1": wc["k_1"], "expected": line_k}))
        judge_ts = _ts_from_finite_scatter(an, rows)
        if not judge_ts:
            cnt.append("exact-line/TS-estimated-from-run-out-proportions(not judged)/%s" % an)
        if math.isnan(wc["TN"]) or (judge_ts and math.isnan(wc["TS"])):
            viol.append(("C18/%s/exact-line/TN-TS-nan" % an, {"wc": wc}))
        else:
            tol = RTOL_EXACT if an != "MaxLikeFull" else 1e-6
            if not _close(wc["TN"], 1.0, tol):
                viol.append((ZERO_SCATTER_KEY if an == "MaxLikeFull" else "C18/%s/exact-line/TN" % an,
                             {"clause": "exact-line", "TN": wc["TN"], "wc": wc}))
            elif judge_ts and not _close(wc["TS"], 1.0, tol):
                viol.append((ZERO_SCATTER_KEY if an == "MaxLikeFull" else "C18/%s/exact-line/TS" % an,
                             {"clause": "exact-line", "TS": wc["TS"], "wc": wc}))
        cnt.append("exact-line/judged/%s" % an)
    if an in ("MaxLikeInf", "MaxLikeFull") and el["status"] == "ok":
        rel = ref.relevant_rows(rows)
        e = el["wc"]
        l_el = ref.loglik_total(rel, e["SD"], e["TS"], e["k_1"], e["ND"], e["TN"])
        l_ml = ref.loglik_total(rel, wc["SD"], wc["TS"], wc["k_1"], wc["ND"], wc["TN"])
        if an == "MaxLikeInf" and line_k is not None:
            # singular finite-zone part: compare the part MaxLikeInf maximises
            l_el = ref.loglik_infinite(rel, e["SD"], e["TS"])
            l_ml = ref.loglik_infinite(rel, wc["SD"], wc["TS"])
        if not math.isfinite(l_el):
            cnt.append("likelihood/elementary-start-not-finite(vacuous)/%s" % an)
        elif not (l_ml >= l_el - 1e-9):
            viol.append(("C18/%s/likelihood-below-elementary" % an, {"logL_elementary": l_el, "logL_result": l_ml,
                                                                       "elementary": e, "result": wc}))
        else:
            cnt.append("likelihood/judged/%s" % an)
    return viol, cnt


def compare(an, s, rows, base, other, xf, el):
    """Metamorphic clause for one transformation.  -> (violations, counters)"""
    kind = xf[0]
    clause = {"load": "load-scaling", "cycles": "cycle-scaling", "perm": "permutation", "permkeep": "permutation",
              "duplabels": "non-unique-row-labels", "nofrac": "cycle-scaling/frame-without-fracture-column"}[kind]
    cnt = []
    if kind == "nofrac" and not any(not r[2] for r in rows):
        return [], ["no-fracture-column: series without run-out (the longest test would become one): executed, not judged"]
    if other["status"] == "raise":
        return [("C18/%s/raises-%s" % (an, other["type"]), {"msg": other["msg"], "clause": clause})], cnt
    if base["status"] == "raise":
        return [], cnt                      # reported by the base case
    if base["status"] != other["status"]:
        return [("C18/%s/%s/acceptance-differs" % (an, clause), {"base": base, "transformed": other})], cnt
    if base["status"] == "reject":
        return [], ["rejected-consistently/%s" % an]
    lc = xf[1] if kind == "load" else 1.0
    cc = xf[1] if kind in ("cycles", "nofrac") else 1.0
    b = base["wc"]
    o = dict(other["wc"])
    o["SD"] = o["SD"] / lc
    o["ND"] = o["ND"] / cc
    exact_series = on_line(s, rows, an) is not None
    degenerate = an == "MaxLikeFull" and on_line(s, rows) is not None
    prefix = "C18/%s/%s" % (an, clause)

    # the likelihood has no maximum in TS (it keeps rising towards TS -> infinity) and the simplex stops somewhere on
    # that ridge: one input class, one key, whatever clause and quantity expose it
    runaway = an in ("MaxLikeInf", "MaxLikeFull") and max(abs(b["TS"]), abs(o["TS"])) > TS_RUNAWAY

    def nan_key(p):
        # exact-line data whose scatter comes out NaN on one side: the exact-line defect, not a new one
        if exact_series and p in ("TN", "TS") and (math.isnan(b[p]) or math.isnan(o[p])):
            return "C18/%s/exact-line/TN-TS-nan" % an
        if degenerate:
            return ZERO_SCATTER_KEY
        if runaway:
            return _llkey("C18/%s/TS-runaway" % an, s, xf)
        return "%s/%s" % (prefix, p)

    viol = []
    if an in FAST:
        for p in PARAMS:
            if p == "ND" and kind == "load":
                if not _close(b[p], o[p], RTOL_EXACT):
                    cnt.append("load-scaling/ND-changed(property silent, not judged)/%s" % an)
                continue
            if not _close(b[p], o[p], RTOL_EXACT):
                viol.append((nan_key(p), {"param": p, "base": b, "transformed_mapped_back": o}))
                break
        return viol, cnt
    if degenerate:
        # the simplex starts on a zero-scatter estimate where the likelihood is singular: parameters only
        for p in PARAMS:
            if p == "ND" and kind == "load" or _close(b[p], o[p], RTOL_ML):
                continue
            return [(nan_key(p), {"param": p, "base": b, "transformed_mapped_back": o})], cnt
        return viol, ["maxlike/zero-scatter-start-compared"]
    # likelihood maximisers: same estimate = same log-likelihood on the base data (optimiser tolerance) ...
    rel = ref.relevant_rows(rows)

    def logl(q):
        return ref.loglik_total(rel, q["SD"], q["TS"], q["k_1"], q["ND"], q["TN"])
    if runaway:
        prefix = "C18/%s/TS-runaway" % an
    lb, lo = logl(b), logl(o)
    if an == "MaxLikeInf" and exact_series:
        # singular finite-zone part (zero scatter): MaxLikeInf only maximises the infinite-zone part, compare that
        def logl(q):                                                   # noqa: F811
            return ref.loglik_infinite(rel, q["SD"], q["TS"])
        lb, lo = logl(b), logl(o)
    if math.isfinite(lb) and math.isfinite(lo):
        if abs(lb - lo) > DLL:
            return [(_llkey(prefix, s, xf), {"logL_base": lb, "logL_transformed_mapped_back": lo,
                                                  "base": b, "transformed_mapped_back": o})], cnt
        cnt.append("maxlike/logL-compared/%s" % an)
    elif math.isfinite(lb) != math.isfinite(lo):
        return [(_llkey(prefix, s, xf), {"logL_base": lb, "logL_transformed_mapped_back": lo,
                                              "base": b, "transformed_mapped_back": o})], cnt
    else:
        cnt.append("maxlike/logL-not-finite-on-both-sides/%s" % an)
    # ... and the same parameters.  k_1, TN and the position of the finite-life line (cycles at the mean finite-zone
    # load) are identified by the finite-zone fractures; MaxLikeInf takes them from the closed-form regression.
    # SD and TS are judged at 5 % unless the reference likelihood is flat (<= 1e-3) under a 5 % change at the base
    # optimum: then the data do not identify them within the optimiser's tolerance (counted).  ND is the line
    # evaluated at SD and is covered by line position + SD.
    _, fin, _ = ref.zones(rel)
    lref = sum(rel[i][0] for i in fin) / len(fin) if fin else float("nan")

    def nref(q):
        try:
            return q["ND"] * (lref / q["SD"]) ** (-q["k_1"])
        except (ZeroDivisionError, OverflowError):
            return float("nan")
    tol = 1e-6 if an == "MaxLikeInf" else RTOL_ML
    for p, vb, vo in (("k_1", b["k_1"], o["k_1"]), ("TN", b["TN"], o["TN"]), ("line-position", nref(b), nref(o))):
        if not _close(vb, vo, tol):
            return [(nan_key(p), {"param": p, "base": b, "transformed_mapped_back": o, "values": [vb, vo]})], cnt
    for p in ("SD", "TS"):
        if _close(b[p], o[p], RTOL_ML):
            continue
        if math.isfinite(lb) and _flat(logl, b, p, lb):
            cnt.append("maxlike/dev>5%%-but-likelihood-flat(not judged)/%s/%s" % (an, p))
            continue
        return [(nan_key(p), {"param": p, "base": b, "transformed_mapped_back": o})], cnt
    if not _close(b["ND"], o["ND"], RTOL_ML):
        cnt.append("maxlike/ND-dev>5%%(covered by line position and SD)/%s" % an)
    return viol, cnt


def _stag(s, xf):
    """names the input (series and transformation): optimiser findings are recorded per input, not per clause"""
    t = "k%g-%s-r%d-j%s-%s" % (s["k"], "+".join("%g" % v for v in s["levels"]), s["reps"], s["jit"], s["ro"])
    if xf is None:
        return t
    return t + "/" + ("%s*%g" % (xf[0], xf[1]) if xf[0] in ("load", "cycles", "nofrac") else xf[0])


def _llkey(prefix, s=None, xf=None):
    key = prefix if prefix.endswith("/TS-runaway") else prefix + "/log-likelihood"
    return key + "/" + _stag(s, xf) if s is not None and key.startswith("C18/MaxLikeFull/") else key


def _flat(logl, b, p, lb):
    """Is the reference log-likelihood flat (within DLL) under a 5 % change of p at the base optimum?  SD is moved
    together with ND along the finite-life line (that is the direction in which the optimiser can slide)."""
    for f in (1.0 + RTOL_ML, 1.0 / (1.0 + RTOL_ML)):
        q = dict(b)
        q[p] = b[p] * f
        if p == "SD":
            q["ND"] = b["ND"] * f ** (-b["k_1"])
        lq = logl(q)
        if math.isfinite(lq) and lq >= lb - DLL:
            return True
    return False


# ---------------------------------------------------------------------------------------------- explorer
def _outcome(res):
    if res["status"] != "ok":
        return (res["status"], res.get("msg") or res.get("type"))
    return tuple("%.6g" % res["wc"][p] for p in PARAMS)


def run_case(an, s, xf):
    """One (series, analyzer, transformation) case; xf None = base case.  -> (violations, counters, info)"""
    rows = series_rows(s)
    base = run_an(an, rows)
    el = base if an == "Elementary" else (run_an("Elementary", rows) if an in ("MaxLikeInf", "MaxLikeFull") else None)
    if xf is None:
        viol, cnt = check_base(an, s, rows, base, el)
        if an == "Elementary":
            viol += check_zones(rows)
        return viol, cnt, {"base": base, "el": el}
    r2, labels, _, _ = apply_xf(rows, xf)
    other = run_an(an, r2, labels)
    viol, cnt = compare(an, s, rows, base, other, xf, el)
    if an == "Elementary" and _zones_checked(xf):
        viol += check_zones(r2, labels)
    return viol, cnt, {"base": base, "other": other, "el": el}


def _explore_series(acc, an, s, xfs):
    rows = series_rows(s)
    base = run_an(an, rows)
    acc.evaluations += 1
    el = None
    if an in ("MaxLikeInf", "MaxLikeFull"):
        el = run_an("Elementary", rows)
        acc.evaluations += 1
    elif an == "Elementary":
        el = base
    acc.cases += 1
    viol, cnt = check_base(an, s, rows, base, el)
    if an == "Elementary":
        viol += check_zones(rows)
        acc.evaluations += 1
    for key, detail in viol:
        acc.violation(key, {"an": an, "series": s, "xf": None}, detail)
    for c in cnt:
        acc.count(c)
    acc.outcome([an, _outcome(base)])
    ok = base["status"] == "ok" and all(math.isfinite(base["wc"][p]) for p in ("k_1", "SD", "ND"))
    moved = True
    if an in ("MaxLikeInf", "MaxLikeFull") and ok and el["status"] == "ok":
        moved = any(not _close(base["wc"][p], el["wc"][p], 1e-12) for p in PARAMS)
    if ok and len(acc.samples) < 1 and s["jit"] is not None:
        acc.sample({"analyzer": an, "series": s, "rows(load,cycles,fracture)": rows, "result": base["wc"]})
    for xf in xfs:
        acc.cases += 1
        r2, labels, _, _ = apply_xf(rows, xf)
        other = run_an(an, r2, labels)
        acc.evaluations += 1
        viol, cnt = compare(an, s, rows, base, other, xf, el)
        if an == "Elementary" and _zones_checked(xf):
            viol += check_zones(r2, labels)
            acc.evaluations += 1
        if ok and moved:
            acc.nontrivial += 1
        for key, detail in viol:
            acc.violation(key, {"an": an, "series": s, "xf": xf}, detail)
        for c in cnt:
            acc.count(c)
        acc.count("cases/%s/%s" % (an, xf[0]))


def run_shard(shard):
    kind, tier, block, xf = shard
    t = _tier(tier)
    acc = Acc()
    if kind == "history":
        for h in block:
            acc.cases += 1
            acc.evaluations += 3
            acc.nontrivial += 1
            for key, detail in run_history(h):
                acc.violation(key, {"history": h}, detail)
            acc.count("cases/%s/history" % h["an"])
        return acc
    if kind == "shared":
        for h in block:
            acc.cases += 1
            acc.evaluations += 2 * sum(1 for st in h["steps"] if not (isinstance(st, (list, tuple)) and st[0] == "transition"))
            acc.nontrivial += 1
            for key, detail in shared_case(h):
                acc.violation(key, {"shared": h}, detail)
            acc.outcome(["shared", h["steps"]])
            acc.count("cases/kept-fatigue-data-history")
        return acc
    for s in block:
        n = len(series_rows(s))
        if kind == "fast":
            xfs = transformations(n, t["fast"])
            for an in FAST:
                _explore_series(acc, an, s, xfs)
            if on_line(s, series_rows(s)) is not None:
                # MaxLikeInf (0.1 s) on the exact-line / two-fracture series: scales, reversed, carried labels
                _explore_series(acc, "MaxLikeInf", s, [x for x in xfs if _zones_checked(x)])
        elif kind == "ml":
            _explore_series(acc, xf, s, transformations(n, t["ml"]))
        else:
            _explore_series(acc, "MaxLikeFull", s, [xf])
    return acc


def replay(case):
    if "history" in case:
        return history_case(case["history"])
    if "shared" in case:
        return shared_case(case["shared"])
    viol, _, _ = run_case(case["an"], case["series"], case["xf"])
    return viol
