"""C06 - notch approximation laws return the root of their equation, and its inverse.

Lattice enumeration on the real ExtendedNeuber / SeegerBeste objects against mc/refs/notch.py (bisection on
the guideline equations, Ramberg-Osgood coded independently).

group  = (law, material (E, K', n', R_m), K_p, tolerance T (rtol = tol = T), branch)
case   = one lattice point (group, load) of the load axis  R_m * factors, both signs, and 0
probes = the ways the lattice points of a group are pushed through pyLife:
           scalar containers (python float, np.float64, 0-d array, 1-d array of length 1), one call per load;
           arrays: length 2 ([L, -L]), the whole axis without / with the zero load (ndarray, Series, Series with
           a shuffled non-default index), a 150 point grid (the per-element retry path of Seeger-Beste);
           for every probe also the backward function on pyLife's own result (round trip);
           "shape": oddness and strict monotonicity of the scalar results along the sorted axis.

Tolerances (stated): the solvers stop when the *step* in the unknown is below tol + rtol |x| (scalar) resp. tol
(vectorised), so "to within the requested tolerance" is judged as distance to the exact root in the unknown:
    a(x) = C (T + T |x|),  C = 10.
"""
import math
import warnings

import numpy as np

from mc.explore import Acc
from mc.refs import notch as ref

ID = "C06"
LEVEL = "exploration"
C = 10.0
RULE = ("every point of the lattice law x material x K_p x tolerance x branch x load (both signs and 0) is one case; "
        "each is evaluated through every container probe (4 scalar containers, length-2 arrays, whole-axis "
        "ndarray/Series/re-indexed Series with and without the zero load, 150-point grid) forwards and backwards; "
        "non-trivial = lattice point whose exact root differs from the load by more than the judging tolerance "
        "C (T + T |root|), i.e. the non-linear equation and not sigma = L decides the verdict")
ASSUMPTIONS = [
    "mc/refs/notch.py codes eq. 2.5-45/2.5-46 (extended Neuber) and 2.8-42/2.8-43 (Seeger-Beste) of FKM nonlinear "
    "as printed in pyLife's docstrings / the literature; the root is unique on [L/K_p, L] (a 64-point sign scan of "
    "every reference root's bracket is part of the run and aborts the check if it sees more than one sign change)",
    "requested tolerance = step tolerance of the solver in the unknown; judged as |value - exact root| <= "
    "10 (T + T |root|) (vector Newton uses tol only, scalar Newton tol + rtol |x|; both are covered)",
    "round trips are judged with the first-order propagated budget a(L) + max(1, dL/dsigma) a(sigma)",
    "containers are compared within the same tolerance, not bitwise (scalar and vector solvers stop at different "
    "iterates); a disagreement is reported only where both values pass the root check (otherwise the root "
    "violation is the report); round trips are judged only where the forward value was accepted",
    "SeegerBeste.load / load_secondary_branch are documented as scalar-only: array round trips are executed and "
    "counted, not judged; python ints are not in the container list (docstrings say 'array-like float')",
    "solver RuntimeErrors are counted per law/method (quantifier); a RuntimeWarning with a returned value is judged",
    "scipy.optimize.newton is part of the executed system",
]

# (name, E, K', n', R_m): FKM estimates (eq. 2.5-13) for the three material groups + the two guideline examples
MATERIALS = [
    ("Steel/600", 206000.0, 1184.4709523475037, 0.187, 600.0),
    ("Al_wrought/300", 70000.0, 624.0583486028388, 0.128, 300.0),
    ("SteelCast/600", 206000.0, 1169.1916943414492, 0.176, 600.0),
    ("Steel/300", 206000.0, 636.0635496626829, 0.187, 300.0),
    ("Steel/1000", 206000.0, 2058.867536682219, 0.187, 1000.0),
    ("Steel/1400", 206000.0, 3009.212056072426, 0.187, 1400.0),
    ("SteelCast/300", 206000.0, 579.0081199728432, 0.176, 300.0),
    ("SteelCast/1000", 206000.0, 1962.4943155357028, 0.176, 1000.0),
    ("SteelCast/1400", 206000.0, 2760.3311931823027, 0.176, 1400.0),
    ("Al_wrought/150", 70000.0, 335.9524206505826, 0.128, 150.0),
    ("Al_wrought/500", 70000.0, 984.9863108504265, 0.128, 500.0),
    ("guideline-example-1", 206000.0, 1184.0, 0.187, 600.0),
    ("guideline-example-2", 206000.0, 2650.5, 0.187, 1200.0),
]
LAWS = ("ExtendedNeuber", "SeegerBeste")
BRANCHES = ("primary", "secondary")
TIERS = {
    "quick": {"materials": 2, "K_p": (1.0, 1.001, 1.2, 2.0, 3.5, 10.0),
              "factors": (0.002, 0.05, 0.3, 0.7, 1.0, 1.5, 2.5, 4.0), "tolerances": (1e-4, 1e-7, 1e-10)},
    "thorough": {"materials": len(MATERIALS), "K_p": (1.0, 1.001, 1.01, 1.05, 1.2, 1.5, 2.0, 3.5, 5.0, 10.0),
                 "factors": (0.002, 0.01, 0.05, 0.1, 0.3, 0.5, 0.7, 0.85, 1.0, 1.2, 1.5, 2.0, 2.5, 3.0, 4.0),
                 "tolerances": (1e-4, 1e-5, 1e-7, 1e-10)},
}
SCALAR_CONTAINERS = ("float", "np.float64", "0-d array", "1-d array len 1")
ARRAY_CONTAINERS = ("ndarray", "Series", "Series/shuffled-index")
GRID = 150
# K_p so close to 1 that Seeger-Beste's vectorised secant leaves entries unconverged and the per-element retry runs.
# Root accuracy there belongs to the recorded narrow-bracket finding; these shards judge ONLY the container clause,
# and only grossly (an element that received another element's answer).
RETRY_KP = (1.0001,)
GROSS = 0.01      # 1 % of the load: orders of magnitude above the worst accepted solver inaccuracy (~1e-4 for K_p -> 1)


def bounds(tier):
    t = TIERS[tier]
    return {"laws": LAWS, "materials(name,E,K',n',R_m)": MATERIALS[:t["materials"]], "K_p": t["K_p"],
            "load_factors_of_R_m(both signs, and 0)": t["factors"], "tolerances(rtol=tol)": t["tolerances"],
            "branches": BRANCHES, "scalar_containers": SCALAR_CONTAINERS, "array_containers": ARRAY_CONTAINERS,
            "array_probes": ["pair [L,-L] per load", "axis", "axis+0", "grid of %d loads in +-4 R_m" % GRID], "C": C}


def shards(tier):
    t = TIERS[tier]
    out = []
    for law in LAWS:
        for mat in MATERIALS[:t["materials"]]:
            for kp in t["K_p"]:
                if law == "SeegerBeste" and kp == 1.0:
                    continue        # quantifier: Seeger-Beste K_p > 1
                for T in t["tolerances"]:
                    out.append({"law": law, "mat": list(mat), "K_p": kp, "factors": list(t["factors"]), "tolerances": [T]})
    for mat in MATERIALS[:t["materials"]]:
        for kp in RETRY_KP:
            out.append({"law": "SeegerBeste", "mat": list(mat), "K_p": kp, "factors": list(t["factors"]),
                        "tolerances": [T for T in t["tolerances"] if T >= 1e-8], "gross_only": True})
    return out


# ------------------------------------------------------------------------------------------------- helpers
def _law(g):
    """The law object under test.  via == 'setters': the object is not fresh - it was constructed with another K' and
    K_p, every solver method was used once (anything an implementation may cache is filled), and only then K' and K_p
    were assigned through the public setters.  The property speaks about the law with its *current* parameters."""
    if g["law"] == "ExtendedNeuber":
        from pylife.materiallaws.notch_approximation_law import ExtendedNeuber as cls
    else:
        from pylife.materiallaws.notch_approximation_law_seegerbeste import SeegerBeste as cls
    _, E, K, n, rm = g["mat"]
    via = g.get("via", "fresh")
    if via == "fresh":
        return cls(E, K, n, g["K_p"])
    if via == "after-raise":
        # a fresh object on which calls were made that (may) raise: zero range / python int on the secondary branch ...
        law = cls(E, K, n, g["K_p"])
        import warnings
        with warnings.catch_warnings():
            warnings.simplefilter("ignore")
            for meth, arg in (("stress_secondary_branch", 0.0), ("load_secondary_branch", 0.0), ("stress_secondary_branch", int(rm)),
                              ("load_secondary_branch", int(0.8 * rm)), ("stress", int(rm)), ("load", "x")):
                try:
                    getattr(law, meth)(arg)
                except Exception:  # noqa: BLE001   (whether these raise is not judged; what they leave behind is)
                    pass
        return law
    if via == "after-loose-questions":
        # a fresh object that was first asked every scalar question of the lattice (forwards, both branches) with a LOOSE
        # tolerance (1e-2, and the default): the tolerance requested afterwards is the one that counts
        law = cls(E, K, n, g["K_p"])
        import warnings
        with warnings.catch_warnings():
            warnings.simplefilter("ignore")
            for L in _axis(g, True):
                for meth in ("stress", "stress_secondary_branch"):
                    for kw in ({"rtol": 1e-2, "tol": 1e-2}, {}):
                        try:
                            getattr(law, meth)(float(L), **kw)
                        except Exception:  # noqa: BLE001   (the warm-up is not judged)
                            pass
        return law
    if via == "sibling-set-K":
        # ... or whose sibling (the other law class, same material, constructed right after it) had its K' changed
        from pylife.materiallaws.notch_approximation_law import ExtendedNeuber as EN
        from pylife.materiallaws.notch_approximation_law_seegerbeste import SeegerBeste as SB
        law = cls(E, K, n, g["K_p"])
        sib = (SB if cls is EN else EN)(E, K, n, g["K_p"])
        sib.K = 2.0 * K
        try:
            sib.stress(0.5 * rm)
        except Exception:  # noqa: BLE001
            pass
        return law
    # one parameter at a time, so that a cache keyed on the *other* parameter is not invalidated by accident
    law = cls(E, 2.0 * K, n, g["K_p"]) if via == "set-K" else cls(E, K, n, g["K_p"] + 1.5)
    import warnings
    with warnings.catch_warnings():
        warnings.simplefilter("ignore")
        for meth, arg in (("stress", 0.5 * rm), ("stress_secondary_branch", rm), ("load", 0.4 * rm), ("load_secondary_branch", 0.8 * rm)):
            for a in (arg, np.array([arg, -0.5 * arg])):
                try:
                    getattr(law, meth)(a)
                except Exception:  # noqa: BLE001   (the warm-up is not judged)
                    pass
    if via == "set-K":
        law.K = K
    else:
        law.K_p = g["K_p"]
    return law


def _methods(g):
    if g["branch"] == "primary":
        return "stress", "load", "strain"
    return "stress_secondary_branch", "load_secondary_branch", "strain_secondary_branch"


def _axis(g, zero):
    rm = g["mat"][4]
    pos = [f * rm for f in g["factors"]]
    return sorted([-x for x in pos] + ([0.0] if zero else []) + pos)


def _grid(g):
    rm = g["mat"][4]
    half = GRID // 2
    pos = [4.0 * rm * k / half for k in range(1, half + 1)]
    return sorted([-x for x in pos] + pos)


def _make_scalar(container, x):
    x = float(x)
    if container == "float":
        return x
    if container == "np.float64":
        return np.float64(x)
    if container == "0-d array":
        return np.array(x)
    return np.array([x])


def _make_array(container, xs):
    import pandas as pd
    if container == "ndarray":
        return np.array(xs, dtype=float)
    if container == "Series":
        return pd.Series(np.array(xs, dtype=float))
    n = len(xs)
    if container == "Series/index-1..n":
        return pd.Series(np.array(xs, dtype=float), index=pd.RangeIndex(1, n + 1))
    if container == "Series/reversed-index":
        return pd.Series(np.array(xs, dtype=float), index=list(range(n - 1, -1, -1)))
    return pd.Series(np.array(xs, dtype=float), index=[(7 * i + 3) % n if math.gcd(7, n) == 1 else n - 1 - i for i in range(n)])


def _call(fn, arg, T):
    """-> ('ok', value) | ('solver-raised', exc) | ('exc', exc); only the pyLife call is guarded."""
    with warnings.catch_warnings():
        warnings.simplefilter("ignore")
        try:
            return "ok", fn(arg, rtol=T, tol=T)
        except RuntimeError as e:       # scipy: "Failed to converge ..." - counted, not judged (quantifier)
            return "solver-raised", e
        except Exception as e:          # noqa: BLE001 - any other exception is a violation
            return "exc", e


def _a(T, x):
    return C * (T + T * abs(x))


class Ref:
    """Exact roots of one (law, material, K_p, branch), cached per load."""

    def __init__(self, g):
        self.law = g["law"]
        _, self.E, self.K, self.n, _ = g["mat"]
        self.Kp = g["K_p"]
        self.sec = g["branch"] == "secondary"
        self._fw = {}
        self._slope = {}

    def stress(self, L):
        L = float(L)
        if L not in self._fw:
            r = ref.stress(self.law, self.E, self.K, self.n, self.Kp, L, self.sec)
            if L != 0.0 and self.Kp != 1.0:
                a = abs(L)
                res = ref.RESIDUAL[self.law]
                nchg = ref.sign_changes(lambda s: res(self.E, self.K, self.n, self.Kp, s, a, self.sec), a / self.Kp, a)
                if nchg > 1:
                    raise AssertionError("reference root not unique: %r" % ((self.law, self.E, self.K, self.n, self.Kp, L, self.sec),))
            self._fw[L] = r
        return self._fw[L]

    def load(self, s):
        return ref.load(self.law, self.E, self.K, self.n, self.Kp, float(s), self.sec)

    def slope(self, L):
        """max(1, dL/dsigma) at the root belonging to L (central difference on the reference inverse)."""
        L = float(L)
        if L not in self._slope:
            r = abs(self.stress(L))
            if r == 0.0 or self.Kp == 1.0:
                s = 1.0
            else:
                h = 1e-6
                s = (self.load(r * (1 + h)) - self.load(r * (1 - h))) / (2 * h * r)
            self._slope[L] = max(1.0, s)
        return self._slope[L]

    def strain(self, s):
        f = ref.ro_delta_strain if self.sec else ref.ro_strain
        return f(self.E, self.K, self.n, float(s))

    def small_u(self, L):
        """Seeger-Beste: u at the exact root below 1e-3 (cos u is 1 to ~1e-7, the guideline's
        (2/u^2) ln(1/cos u) evaluated literally loses > 2e-10 relative accuracy)."""
        if self.law != "SeegerBeste" or L == 0.0:
            return False
        r = abs(self.stress(L))
        return 0.5 * math.pi * (abs(L) / r - 1.0) / (self.Kp - 1.0) < 1e-3


def _key(g, meth, clause):
    return "C06/%s/%s/%s%s" % (g["law"], meth, clause, "/after-setters" if g.get("via", "fresh") != "fresh" else "")


def _tag(R, L):
    """Seeger-Beste regimes (classifier of the input, used in violation keys):
    small-u        : u < 1e-3 at the exact root - the literal (2/u^2) ln(1/cos u) cancels catastrophically
    narrow-bracket : 1 - 1/K_p <= 1e-3 - the admissible interval [L/K_p, L] is at most 10x scipy's secant start
                     offset (1e-4 x0 + 1e-4), which lies beyond L"""
    if R.law != "SeegerBeste":
        return ""
    if R.small_u(L):
        return "/small-u"
    if 1.0 - 1.0 / R.Kp <= 1e-3:
        return "/narrow-bracket"
    return ""


def _judge_forward(g, R, meth, L, v, T):
    """v = pyLife's stress for load L (floats).  -> list of (key, detail)"""
    r = R.stress(L)
    a = _a(T, r)
    d = {"load": L, "got": v, "exact_root": r, "allowed": a}
    if math.isnan(v) and L == 0.0:
        return [(_key(g, meth, "nan-at-zero-load"), d)]
    if not math.isfinite(v):
        return [(_key(g, meth, "non-finite"), d)]
    lo, hi = abs(L) / g["K_p"] - a, abs(L) + a
    if not (lo <= abs(v) <= hi):
        return [(_key(g, meth, "outside-load-bounds" + _tag(R, L)), dict(d, bounds=[abs(L) / g["K_p"], abs(L)]))]
    if abs(v - r) > a:
        return [(_key(g, meth, "not-a-root" + _tag(R, L)), d)]
    return []


def _judge_roundtrip(g, R, bmeth, L, sig, Lb, T):
    """Lb = pyLife's load(sig) where sig = pyLife's stress(L)."""
    if not math.isfinite(sig):
        return []                       # already reported by the forward judgement
    budget = _a(T, L) + R.slope(L) * _a(T, R.stress(L))
    d = {"load": L, "stress": sig, "load_of_stress": Lb, "allowed": budget}
    if math.isnan(Lb) and sig == 0.0:
        return [(_key(g, bmeth, "nan-at-zero-stress"), d)]
    if not math.isfinite(Lb):
        return [(_key(g, bmeth, "non-finite"), d)]
    if abs(Lb - L) > budget:
        return [(_key(g, bmeth, "roundtrip-not-identity" + _tag(R, L)), d)]
    return []


def _flat(v):
    return np.asarray(v, dtype=float).reshape(-1)


def _scalar_float(law, g, R, L, cache, acc):
    """pyLife's forward result for a python-float load (cached within a group). -> ('ok', float) | (status, exc)"""
    if cache is not None and L in cache:
        return cache[L]
    fmeth = _methods(g)[0]
    st, v = _call(getattr(law, fmeth), float(L), g["T"])
    acc.evaluations += 1
    if st == "ok":
        fl = _flat(v)
        res = ("ok", float(fl[0])) if fl.size == 1 else ("exc", ValueError("scalar in, %d values out" % fl.size))
    else:
        res = (st, v)
    if cache is not None:
        cache[L] = res
    return res


# ------------------------------------------------------------------------------------------------- probes
def _backward_on_exact_root(law, g, R, L, acc):
    """float container: load(exact root of L) must return L (independent of pyLife's forward result)."""
    bmeth = _methods(g)[1]
    T = g["T"]
    r = R.stress(L)
    stb, lb = _call(getattr(law, bmeth), float(r), T)
    acc.evaluations += 1
    if stb == "solver-raised":
        acc.count("solver-raised/%s/%s" % (g["law"], bmeth))
        return []
    if stb == "exc":
        return [(_key(g, bmeth, "raises-%s/scalar-input" % type(lb).__name__), {"stress": r, "message": str(lb)[:200]})]
    fl = _flat(lb)
    if fl.size != 1:
        return [(_key(g, bmeth, "wrong-shape"), {"container": "float", "size": int(fl.size)})]
    lb = float(fl[0])
    if math.isnan(lb) and r == 0.0:
        return [(_key(g, bmeth, "nan-at-zero-stress"), {"stress": r, "got": lb, "exact_load": L})]
    if not (math.isfinite(lb) and abs(lb - L) <= _a(T, L)):
        return [(_key(g, bmeth, "not-a-root" + _tag(R, L)), {"stress": r, "got": lb, "exact_load": L, "allowed": _a(T, L)})]
    return []


def probe_scalar(law, g, R, probe, acc, cache=None):
    fmeth, bmeth, smeth = _methods(g)
    L, container, T = float(probe["L"]), probe["container"], g["T"]
    out = []
    if container == "float":
        out += _backward_on_exact_root(law, g, R, L, acc)
        st, v = _scalar_float(law, g, R, L, cache, acc)
    else:
        st, v = _call(getattr(law, fmeth), _make_scalar(container, L), T)
        acc.evaluations += 1
    if st == "solver-raised":
        acc.count("solver-raised/%s/%s" % (g["law"], fmeth))
        return out, None
    if st == "exc":
        return out + [(_key(g, fmeth, "raises-%s/scalar-input" % type(v).__name__), {"load": L, "container": container, "message": str(v)[:200]})], None
    raw = v
    if container != "float":
        fl = _flat(v)
        if fl.size != 1:
            return out + [(_key(g, fmeth, "wrong-shape"), {"load": L, "container": container, "size": int(fl.size)})], None
        v = float(fl[0])
    bad = _judge_forward(g, R, fmeth, L, v, T)
    out += bad
    if container != "float":
        st0, v0 = _scalar_float(law, g, R, L, cache, acc)
        if st0 == "ok" and not bad and not _judge_forward(g, R, fmeth, L, v0, T) and abs(v - v0) > _a(T, R.stress(L)):
            out.append((_key(g, fmeth, "containers-disagree"), {"load": L, "container": container, "got": v, "python_float": v0}))
    elif math.isfinite(v):
        # closed-form strain of the law = Ramberg-Osgood strain of the returned stress
        e = getattr(law, smeth)(v, L)
        acc.evaluations += 1
        e = float(_flat(e)[0])
        if not abs(e - R.strain(v)) <= 1e-12 * abs(R.strain(v)):
            out.append((_key(g, smeth, "not-ramberg-osgood"), {"stress": v, "got": e, "expected": R.strain(v)}))
    # round trip in the same container: load(stress(L)) = L   (only where the forward value was accepted)
    if not bad:
        stb, lb = _call(getattr(law, bmeth), raw, T)
        acc.evaluations += 1
        if stb == "solver-raised":
            acc.count("solver-raised/%s/%s" % (g["law"], bmeth))
        elif stb == "exc":
            out.append((_key(g, bmeth, "raises-%s/scalar-input" % type(lb).__name__), {"stress": v, "container": container, "message": str(lb)[:200]}))
        else:
            fl = _flat(lb)
            if fl.size != 1:
                out.append((_key(g, bmeth, "wrong-shape"), {"container": container, "size": int(fl.size)}))
            else:
                out += _judge_roundtrip(g, R, bmeth, L, v, float(fl[0]), T)
    return out, v


def _array_loads(g, which):
    if which == "axis":
        return _axis(g, False)
    if which == "axis+0":
        return _axis(g, True)
    if which == "grid":
        return _grid(g)
    if which == "axis-mesh-sized":
        # the axis repeated up to >= 20000 elements (implementations may switch to other code above some size)
        ax = _axis(g, False)
        return ax * (-(-20000 // len(ax)))
    L = float(which.split(":")[1])
    return [L, -L]


def probe_array(law, g, R, probe, acc, cache=None):
    fmeth, bmeth, smeth = _methods(g)
    T = g["T"]
    loads = _array_loads(g, probe["which"])
    arg = _make_array(probe["container"], loads)
    out = []
    st, v = _call(getattr(law, fmeth), arg, T)
    acc.evaluations += 1
    if st == "solver-raised":
        acc.count("solver-raised/%s/%s" % (g["law"], fmeth))
        return out
    if st == "exc":
        return [(_key(g, fmeth, "raises-%s/array-input" % type(v).__name__), {"loads": loads, "container": probe["container"], "message": str(v)[:200]})]
    raw = v
    v = _flat(v)
    if v.size != len(loads):
        return [(_key(g, fmeth, "wrong-shape"), {"container": probe["container"], "size": int(v.size), "expected": len(loads)})]
    seen = set()
    accepted = []
    for L, x in zip(loads, v.tolist()):
        bad = _judge_forward(g, R, fmeth, L, x, T)
        accepted.append(not bad)
        for key, d in bad:
            if key not in seen:
                seen.add(key)
                out.append((key, dict(d, container=probe["container"], which=probe["which"])))
        st0, v0 = _scalar_float(law, g, R, L, cache, acc)
        if st0 == "ok" and not bad and not _judge_forward(g, R, fmeth, L, v0, T) and abs(x - v0) > _a(T, R.stress(L)):
            key = _key(g, fmeth, "containers-disagree")
            if key not in seen:
                seen.add(key)
                out.append((key, {"load": L, "container": probe["container"], "which": probe["which"], "got": x, "python_float": v0}))
        elif st0 == "ok" and math.isfinite(x) and math.isfinite(v0) and abs(x - v0) > GROSS * max(abs(L), abs(v0)):
            # where the fine comparison does not apply (a value fails the root clause): an element that got another
            # element's answer is still off by far more than any solver inaccuracy
            key = _key(g, fmeth, "containers-disagree-grossly")
            if key not in seen:
                seen.add(key)
                out.append((key, {"load": L, "container": probe["container"], "which": probe["which"], "got": x, "python_float": v0}))
    if probe["which"] in ("axis", "axis+0"):
        out += _shape(g, R, fmeth, loads, v.tolist(), T, probe["container"])
        e = _flat(getattr(law, smeth)(raw, arg))
        acc.evaluations += 1
        for x, ee in zip(v.tolist(), e.tolist()):
            if math.isfinite(x) and not abs(ee - R.strain(x)) <= 1e-12 * abs(R.strain(x)):
                out.append((_key(g, smeth, "not-ramberg-osgood"), {"stress": x, "got": ee, "expected": R.strain(x), "container": probe["container"]}))
                break
    # round trip on the returned object
    if np.all(np.isfinite(v)):
        stb, lb = _call(getattr(law, bmeth), raw, T)
        acc.evaluations += 1
        if g["law"] == "SeegerBeste":
            # SeegerBeste.load / load_secondary_branch are documented as "only implemented for the scalar case":
            # array round trips are executed and counted, not judged
            acc.count("SeegerBeste-backward-on-arrays(documented scalar-only; not judged)/" + (
                "raised" if stb != "ok" else "returned"))
            return out
        if stb == "solver-raised":
            acc.count("solver-raised/%s/%s" % (g["law"], bmeth))
        elif stb == "exc":
            out.append((_key(g, bmeth, "raises-%s/array-input" % type(lb).__name__), {"container": probe["container"], "which": probe["which"], "message": str(lb)[:200]}))
        else:
            lb = _flat(lb)
            if lb.size != len(loads):
                out.append((_key(g, bmeth, "wrong-shape"), {"container": probe["container"], "size": int(lb.size)}))
            else:
                for L, x, y, ok in zip(loads, v.tolist(), lb.tolist(), accepted):
                    bad = _judge_roundtrip(g, R, bmeth, L, x, y, T) if ok else []
                    if bad:
                        out.append((bad[0][0], dict(bad[0][1], container=probe["container"], which=probe["which"])))
                        break
    return out


def _shape(g, R, fmeth, loads, vals, T, container):
    """oddness and strict monotonicity of finite results along the sorted load axis."""
    out = []
    by_load = {L: x for L, x in zip(loads, vals) if x is not None and math.isfinite(x)}
    for L, x in by_load.items():
        if L > 0 and -L in by_load and abs(by_load[-L] + x) > _a(T, R.stress(L)):
            out.append((_key(g, fmeth, "not-odd"), {"load": L, "stress(L)": x, "stress(-L)": by_load[-L], "container": container}))
            break
    srt = sorted(by_load)
    for l0, l1 in zip(srt, srt[1:]):
        if not by_load[l0] < by_load[l1]:
            out.append((_key(g, fmeth, "not-strictly-increasing"), {"loads": [l0, l1], "stresses": [by_load[l0], by_load[l1]], "container": container}))
            break
    return out


def probe_shape(law, g, R, probe, acc, cache=None):
    fmeth = _methods(g)[0]
    loads = _axis(g, True)
    vals = []
    for L in loads:
        st, v = _scalar_float(law, g, R, L, cache, acc)
        vals.append(v if st == "ok" else None)
    return _shape(g, R, fmeth, loads, vals, g["T"], "float")


def probes_of(g):
    axis0 = _axis(g, True)
    for L in axis0:
        for c in SCALAR_CONTAINERS:
            yield {"p": "scalar", "container": c, "L": L}
    yield {"p": "shape"}
    for L in axis0:
        if L > 0:
            yield {"p": "array", "container": "ndarray", "which": "pair:%r" % L}
    for which in ("axis", "axis+0"):
        for c in ARRAY_CONTAINERS:
            yield {"p": "array", "container": c, "which": which}
    yield {"p": "array", "container": "ndarray", "which": "grid"}
    yield {"p": "array", "container": "Series", "which": "grid"}
    if g.get("via", "fresh") == "fresh" and g["T"] == g.get("T0", g["T"]):
        yield {"p": "array", "container": "ndarray", "which": "axis-mesh-sized"}


def run_probe(law, g, R, probe, acc, cache=None):
    if probe["p"] == "scalar":
        return probe_scalar(law, g, R, probe, acc, cache)[0]
    if probe["p"] == "array":
        return probe_array(law, g, R, probe, acc, cache)
    return probe_shape(law, g, R, probe, acc, cache)


GROSS_CONTAINERS = ("ndarray", "Series", "Series/shuffled-index", "Series/index-1..n", "Series/reversed-index")


def run_gross(shard, acc):
    """container clause only, in the regime where the per-element retry of non-converged entries runs"""
    for T in shard["tolerances"]:
        for branch in BRANCHES:
            g = {"law": shard["law"], "mat": shard["mat"], "K_p": shard["K_p"], "factors": shard["factors"], "T": T, "branch": branch,
                 "gross_only": True}
            law = _law(g)
            for which in ("axis", "axis-small-first"):
                for container in GROSS_CONTAINERS:
                    acc.cases += 1
                    probe = {"p": "gross", "container": container, "which": which}
                    found = probe_gross(law, g, probe, acc)
                    if not found:
                        acc.nontrivial += 1
                    for key, detail in found:
                        acc.violation(key, {"group": g, "probe": probe}, detail)


def probe_gross(law, g, probe, acc):
    fmeth = _methods(g)[0]
    T = g["T"]
    loads = _axis(g, False)
    if probe["which"] == "axis-small-first":
        loads = sorted(loads, key=abs)              # an elastic load first: position 0 converges in the vectorised pass
    st, v = _call(getattr(law, fmeth), _make_array(probe["container"], loads), T)
    acc.evaluations += 1
    if st == "solver-raised":
        acc.count("solver-raised/%s/%s" % (g["law"], fmeth))
        return []
    if st == "exc":
        if isinstance(v, (KeyError, IndexError)):
            return [(_key(g, fmeth, "raises-%s/array-input" % type(v).__name__), {"loads": loads, "container": probe["container"], "message": str(v)[:200]})]
        acc.count("gross-only shard: %s raised (not judged here)" % type(v).__name__)
        return []
    v = _flat(v)
    if v.size != len(loads):
        return [(_key(g, fmeth, "wrong-shape"), {"container": probe["container"], "size": int(v.size), "expected": len(loads)})]
    for L, x in zip(loads, v.tolist()):
        st0, v0 = _call(getattr(law, fmeth), float(L), T)
        acc.evaluations += 1
        if st0 != "ok":
            continue
        v0 = float(_flat(v0)[0])
        acc.outcomes.add(hash((g["law"], g["branch"], "gross", round(v0, 6))))
        if math.isfinite(x) and math.isfinite(v0) and abs(x - v0) > GROSS * max(abs(L), abs(v0)):
            return [(_key(g, fmeth, "containers-disagree-grossly"), {"load": L, "container": probe["container"], "which": probe["which"],
                                                                     "got": x, "python_float": v0, "K_p": g["K_p"]})]
    return []


def run_shard(shard):
    acc = Acc()
    if shard.get("gross_only"):
        run_gross(shard, acc)
        return acc
    for T in shard["tolerances"]:
        for branch, via in [(b, v) for b in BRANCHES for v in ("fresh", "set-K", "set-Kp", "after-raise", "sibling-set-K", "after-loose-questions")]:
            g = {"law": shard["law"], "mat": shard["mat"], "K_p": shard["K_p"], "factors": shard["factors"], "T": T, "T0": shard["tolerances"][0], "branch": branch, "via": via}
            law = _law(g)
            R = Ref(g)
            cache = {}
            for L in _axis(g, True):
                acc.cases += 1
                r = R.stress(L)
                if abs(L) - abs(r) > _a(T, r):
                    acc.nontrivial += 1
                    if not acc.samples and g["K_p"] >= 2 and abs(L) >= g["mat"][4]:
                        acc.sample({"law": g["law"], "material": g["mat"], "K_p": g["K_p"], "T": T, "branch": branch, "load": L, "exact_root": r})
            for probe in probes_of(g):
                for key, detail in run_probe(law, g, R, probe, acc, cache):
                    acc.violation(key, {"group": g, "probe": probe}, detail)
            for L, res in cache.items():
                if res[0] == "ok":
                    acc.outcomes.add(hash((g["law"], branch, round(res[1], 6))))
                else:
                    acc.outcomes.add(hash((g["law"], branch, res[0])))
    return acc


def replay(case):
    g, probe = case["group"], case["probe"]
    if probe["p"] == "gross":
        return probe_gross(_law(g), g, probe, Acc())
    return run_probe(_law(g), g, Ref(g), probe, Acc(), None)
