"""C08 - Woehler curve: cycles()/load() are inverses with the stated scatter semantics.

Every curve of a parameter lattice (k_1, k_2, SD, ND, scatter given as TN / TS / both / absent, native failure
probability) is evaluated with the real accessor for every target failure probability on a load / cycle lattice
that contains, for *each* target probability, the transformed knee exactly, one ulp-scale step (1e-12) on both
sides of it, and points deep inside both branches.  Oracles: the clauses of the property (inverse pairs,
monotony, knee continuity, slopes, Miner variants, growth with P, TN / TS quantile ratios, group law of the
probability transformation, identity at the native probability, scatter conversions, broadcast = element-wise)
plus a plain-Python log-normal reference curve (mc/refs/sn_curve_c08.py).
"""
import itertools
import math

import numpy as np

from mc.explore import Acc, chunked
from mc.refs import sn_curve_c08 as ref

ID = "C08"
LEVEL = "exploration"
RULE = ("product lattice of curve parameters x native probability; per curve every target probability and the union "
        "load/cycle lattice (native and every transformed knee x {0.2, 0.5, 1-1e-12, 1, 1+1e-12, 2, 10} resp. "
        "{1e-3, 0.5, 1-1e-12, 1, 1+1e-12, 2, 1e3}); plus all ordered pairs/triples of a curve menu as DataFrame curves x "
        "load layouts (broadcast part) and the scatter-conversion lattice; one case = one curve (or one DataFrame x layout); "
        "non-trivial = curve with scatter (TN > 1 or TS > 1) and k_2 != k_1, i.e. the transformation moves the knee and "
        "both branches differ")
ASSUMPTIONS = [
    "log-normal scatter: SD and N shift by (z_P - z_native) * lg(T) / (2 z_0.9); z from statistics.NormalDist (independent of scipy)",
    "a missing TN (TS) is derived as TS^k_1 (TN^(1/k_1)), as the class documentation says",
    "rtol 1e-10 for values (power laws with |exponent| <= 23 of O(1)-conditioned arguments), 1e-9 for slopes by "
    "finite differences, exact knee values to 1e-13; 'continuous at the knee' = a relative step of 1e-12 in the argument "
    "changes the value by <= 1e-10 relative",
    "cycles(load(N)) is only judged on the finite-life branch (for k_2 = inf and N > ND the curve is the endurance plateau; counted)",
]

INF = math.inf
K1 = (1.5, 3.0, 5.0, 12.0)
K2_KINDS = ("k1", "haibach", 22.0, "inf", "absent")
SDS = (1.0, 100.0, 317.3)
NDS = (1e4, 1e6, 2.5e6)
TS_ = (1.0, 1.2, 4.0, 12.0)
TARGETS = (1e-9, 1e-6, 0.1, 0.5, 0.9, 0.975, 1 - 1e-8)
LOADF = (0.2, 0.5, 1 - 1e-12, 1.0, 1 + 1e-12, 2.0, 10.0)
CYCF = (1e-3, 0.5, 1 - 1e-12, 1.0, 1 + 1e-12, 2.0, 1e3)
RTOL = 1e-10


def _scatter_menu(tier):
    if tier == "quick":
        both = [(1.2, 1.2), (4.0, 1.2), (1.2, 4.0), (12.0, 4.0)]
        single = (1.2, 4.0)
        menu = [("none",), ("TN", 1.0)]
    else:
        both = list(itertools.product(TS_, TS_))
        single = TS_
        menu = [("none",)]
    menu += [("TN", t) for t in single] + [("TS", t) for t in single] + [("both", a, b) for a, b in both]
    return menu


def _natives(tier):
    return (None, 0.1, 0.025, 1e-8) if tier == "quick" else (None, 0.1, 0.5, 0.9, 0.025, 1e-8)


def _nds(tier):
    return (1e4, 2.5e6) if tier == "quick" else NDS


def bounds(tier):
    return {"k_1": K1, "k_2": "k_1, 2k_1-1, 22, inf, key absent", "SD": SDS, "ND": _nds(tier),
            "scatter": _scatter_menu(tier), "native_P (None = key absent)": _natives(tier), "target_P": TARGETS,
            "load_factors": LOADF, "cycle_factors": CYCF,
            "broadcast": {"curve_menu": len(_bc_menu()), "frames": "all ordered pairs and triples" if tier != "quick" else "all ordered pairs",
                          "layouts": BC_LAYOUTS, "P": (0.5, 0.1)},
            "scatter_conversion": {"T": CONV_T, "std": CONV_S},
            "call_histories": {"depth": HIST_DEPTH[tier], "curves": HIST_CURVES[tier], "operations": [_hist_name(o) for o in HIST_OPS]}}


def _curve_cases(tier):
    out = []
    for k1, k2k, sd, nd, sc, nat in itertools.product(K1, K2_KINDS, SDS, _nds(tier), _scatter_menu(tier), _natives(tier)):
        if k2k == 22.0 and 22.0 < k1:
            continue
        case = {"k_1": k1, "k_2": k2k, "SD": sd, "ND": nd, "P": nat,
                "TN": sc[1] if sc[0] in ("TN", "both") else None,
                "TS": sc[1] if sc[0] == "TS" else (sc[2] if sc[0] == "both" else None)}
        out.append(case)
    # simplest first: no scatter, native absent
    out.sort(key=lambda c: ((c["TN"] is not None) + (c["TS"] is not None), c["P"] is not None))
    return out


def shards(tier):
    out = [("conv",)]
    out += [("curves", block) for block in chunked(_curve_cases(tier), 60)]
    out += [("bc", block) for block in chunked(_bc_cases(tier), 40)]
    for cv in HIST_CURVES[tier]:
        out.append(("history", cv, 1, ()))
        out += [("history", cv, HIST_DEPTH[tier], (i,)) for i in range(len(HIST_OPS))]
    return out


# ---------------------------------------------------------------------------------------------------------
def _k2_value(case):
    k = case["k_2"]
    if k == "k1":
        return case["k_1"]
    if k == "haibach":
        return 2.0 * case["k_1"] - 1.0
    if k in ("inf", "absent"):
        return INF
    return float(k)


def _series(case):
    import pandas as pd
    d = {"k_1": case["k_1"], "SD": case["SD"], "ND": case["ND"]}
    if case["k_2"] != "absent":
        d["k_2"] = _k2_value(case)
    if case.get("TN") is not None:
        d["TN"] = case["TN"]
    if case.get("TS") is not None:
        d["TS"] = case["TS"]
    if case.get("P") is not None:
        d["failure_probability"] = case["P"]
    return pd.Series(d, dtype=float)


def _ref(case):
    return ref.Curve(case["k_1"], case["SD"], case["ND"], _k2_value(case), case.get("TN"), case.get("TS"), case.get("P"))


def _rel(a, b):
    """relative deviation with inf == inf -> 0, inf vs finite -> inf"""
    a, b = float(a), float(b)
    if math.isnan(a) or math.isnan(b):
        return INF
    if math.isinf(a) or math.isinf(b):
        return 0.0 if a == b else INF
    if a == b:
        return 0.0
    return abs(a - b) / max(abs(a), abs(b))


def _safe(f, *a):
    """reference evaluation that cannot crash the check on absurd arguments coming from a broken implementation"""
    try:
        return f(*a)
    except (ValueError, ZeroDivisionError, OverflowError):
        return math.nan


def _first_bad(got, exp, rtol):
    for i, (g, e) in enumerate(zip(got, exp)):
        if _rel(g, e) > rtol:
            return i
    return None


def _fields_equal(a, b, skip=()):
    """two to_pandas() Series: same keys, same values (nan-safe, exact) except the skipped keys"""
    if set(a.index) != set(b.index):
        return False
    for k in a.index:
        if k in skip:
            continue
        x, y = float(a[k]), float(b[k])
        if not (x == y or (math.isnan(x) and math.isnan(y))):
            return False
    return True


def check_curve(case):
    """-> (violations [(key, detail)], nontrivial, outcome)"""
    import pandas as pd
    import pylife.materiallaws  # noqa: F401  registers .woehler
    import pylife.strength.fatigue  # noqa: F401  registers .fatigue
    viol = []
    rc = _ref(case)
    wc = _series(case)
    wc_before = wc.copy()
    nevals = 0
    try:
        w = wc.woehler
        base = w.to_pandas().copy()
        native = rc.P
        targets = list(TARGETS) + ([native] if native not in TARGETS else [])

        # ---- transformation: knees, field preservation, identity, group law ---------------------------------
        knee = {}
        tcurves = {}
        for P in targets:
            tw = w.transform_to_failure_probability(P)
            nevals += 1
            tp = tw.to_pandas()
            tcurves[P] = tw
            knee[P] = (float(tp.SD), float(tp.ND))
            sd_r, nd_r = rc.knee(P)
            if _rel(tp.SD, sd_r) > RTOL:
                viol.append(("C08/quantile-shift/SD", {"P": P, "got": float(tp.SD), "expected": sd_r}))
            if _rel(tp.ND, nd_r) > RTOL:
                viol.append(("C08/quantile-shift/ND", {"P": P, "got": float(tp.ND), "expected": nd_r}))
            if float(tp.failure_probability) != P or not _fields_equal(tp, base, skip=("SD", "ND", "failure_probability")):
                viol.append(("C08/transform-alters-other-fields", {"P": P, "got": tp.to_dict(), "base": base.to_dict()}))
        if any(not (math.isfinite(v) and v > 0) for k in knee.values() for v in k):
            # no lattice can be built around a degenerate knee; the quantile-shift violations above describe it
            viol.append(("C08/degenerate-transformed-knee", {"knees": {str(p): k for p, k in knee.items()}}))
            return viol, False, ("degenerate",), nevals
        if _rel(knee[native][0], rc.SD) > 1e-12 or _rel(knee[native][1], rc.ND) > 1e-12:
            viol.append(("C08/transform-native-not-identity", {"got": knee[native], "expected": [rc.SD, rc.ND]}))
        if not _fields_equal(w.to_pandas(), base):
            viol.append(("C08/transform-alters-source", {"before": base.to_dict(), "after": w.to_pandas().to_dict()}))
        for p1 in TARGETS:
            first = tcurves[p1]
            for p2 in TARGETS:
                two = first.transform_to_failure_probability(p2).to_pandas()
                nevals += 1
                if (_rel(two.SD, knee[p2][0]) > RTOL or _rel(two.ND, knee[p2][1]) > RTOL
                        or float(two.failure_probability) != p2
                        or not _fields_equal(two, base, skip=("SD", "ND", "failure_probability"))):
                    viol.append(("C08/transform-composition", {"p1": p1, "p2": p2, "got": [float(two.SD), float(two.ND)],
                                                               "direct": knee[p2]}))
        ts_ratio = knee[0.9][0] / knee[0.1][0]
        if _rel(ts_ratio, rc.TS) > 1e-9:
            viol.append(("C08/TS-quantile-ratio", {"SD_90/SD_10": ts_ratio, "TS": rc.TS}))

        # ---- union lattices ---------------------------------------------------------------------------------
        loads = sorted({rc.SD * f for f in LOADF} | {knee[P][0] * f for P in targets for f in LOADF})
        cycs = sorted({rc.ND * f for f in CYCF} | {knee[P][1] * f for P in targets for f in CYCF})
        larr, carr = np.array(loads), np.array(cycs)
        NP, LP = {}, {}
        for P in targets:
            sdp, ndp = knee[P]
            sd_r, nd_r = rc.knee(P)
            N = np.asarray(w.cycles(larr, P), dtype=float)
            L = np.asarray(w.load(carr, P), dtype=float)
            nevals += 2
            NP[P], LP[P] = N, L

            # reference curve (points within 1e-13 of the knee may sit on either branch: skipped there)
            for i, S in enumerate(loads):
                if abs(S / sd_r - 1) < 1e-13:
                    continue
                e = _safe(rc.cycles, S, P)
                if _rel(N[i], e) > RTOL:
                    viol.append(("C08/reference/cycles", {"P": P, "load": S, "got": float(N[i]), "expected": e, "knee": [sdp, ndp]}))
                    break
            for i, n in enumerate(cycs):
                if abs(n / nd_r - 1) < 1e-13:
                    continue
                e = _safe(rc.load, n, P)
                if _rel(L[i], e) > RTOL:
                    viol.append(("C08/reference/load", {"P": P, "cycles": n, "got": float(L[i]), "expected": e, "knee": [sdp, ndp]}))
                    break

            # non-increasing
            if np.any(np.isnan(N)) or np.any(N[1:] > N[:-1] * (1 + 1e-13)):
                viol.append(("C08/cycles-not-monotone-in-load", {"P": P, "loads": loads, "cycles": N.tolist()}))
            if np.any(np.isnan(L)) or np.any(L[1:] > L[:-1] * (1 + 1e-13)):
                viol.append(("C08/load-not-monotone-in-cycles", {"P": P, "cycles": cycs, "load": L.tolist()}))

            # inverse pairs wherever life is finite
            fin = np.isfinite(N)
            if fin.any():
                back = np.asarray(w.load(N[fin], P), dtype=float)
                nevals += 1
                i = _first_bad(back, larr[fin], RTOL)
                if i is not None:
                    viol.append(("C08/inverse/load-of-cycles", {"P": P, "load": float(larr[fin][i]), "cycles": float(N[fin][i]),
                                                                "load_back": float(back[i])}))
            if math.isinf(rc.k_2):
                judged = carr <= ndp
            else:
                judged = np.ones(len(carr), dtype=bool)
            backN = np.asarray(w.cycles(L, P), dtype=float)
            nevals += 1
            i = _first_bad(backN[judged], carr[judged], RTOL)
            if i is not None:
                viol.append(("C08/inverse/cycles-of-load", {"P": P, "cycles": float(carr[judged][i]), "load": float(L[judged][i]),
                                                            "cycles_back": float(backN[judged][i])}))

            # knee: exact value, continuity from both sides, infinite life below for k_2 = inf
            li = {f: loads.index(sdp * f) for f in LOADF}
            ci = {f: cycs.index(ndp * f) for f in CYCF}
            if _rel(N[li[1.0]], ndp) > 1e-13 or _rel(L[ci[1.0]], sdp) > 1e-13:
                viol.append(("C08/knee-value", {"P": P, "cycles(SD)": float(N[li[1.0]]), "ND": ndp, "load(ND)": float(L[ci[1.0]]), "SD": sdp}))
            if _rel(N[li[1 + 1e-12]], ndp) > RTOL:
                viol.append(("C08/knee-continuity/cycles-above", {"P": P, "got": float(N[li[1 + 1e-12]]), "ND": ndp}))
            if math.isinf(rc.k_2):
                if not all(math.isinf(N[li[f]]) and N[li[f]] > 0 for f in (0.2, 0.5, 1 - 1e-12)):
                    viol.append(("C08/k2-inf-life-not-infinite-below-knee", {"P": P, "got": [float(N[li[f]]) for f in (0.2, 0.5, 1 - 1e-12)]}))
            elif _rel(N[li[1 - 1e-12]], ndp) > RTOL:
                viol.append(("C08/knee-continuity/cycles-below", {"P": P, "got": float(N[li[1 - 1e-12]]), "ND": ndp}))
            if _rel(L[ci[1 - 1e-12]], sdp) > RTOL or _rel(L[ci[1 + 1e-12]], sdp) > RTOL:
                viol.append(("C08/knee-continuity/load", {"P": P, "got": [float(L[ci[1 - 1e-12]]), float(L[ci[1 + 1e-12]])], "SD": sdp}))

            # slopes by finite differences inside the branches
            def slope(y1, y2, x1, x2):
                try:
                    return -(math.log(y2) - math.log(y1)) / (math.log(x2) - math.log(x1))
                except (ValueError, ZeroDivisionError, OverflowError):
                    return math.nan
            s_above = slope(N[li[2.0]], N[li[10.0]], 2.0, 10.0)
            if _rel(s_above, rc.k_1) > 1e-9:
                viol.append(("C08/slope-above-knee", {"P": P, "got": s_above, "k_1": rc.k_1}))
            if not math.isinf(rc.k_2):
                s_below = slope(N[li[0.2]], N[li[0.5]], 0.2, 0.5)
                if _rel(s_below, rc.k_2) > 1e-9:
                    viol.append(("C08/slope-below-knee", {"P": P, "got": s_below, "k_2": rc.k_2}))
                s_l = slope(L[ci[2.0]], L[ci[1e3]], 2.0, 1e3)
                if _rel(s_l, 1 / rc.k_2) > 1e-9:
                    viol.append(("C08/slope-below-knee", {"P": P, "direction": "load(cycles)", "got": s_l, "1/k_2": 1 / rc.k_2}))
            elif L[ci[2.0]] != sdp or L[ci[1e3]] != sdp:
                viol.append(("C08/slope-below-knee", {"P": P, "k_2": "inf", "load beyond ND": [float(L[ci[2.0]]), float(L[ci[1e3]])], "SD": sdp}))
            s_l = slope(L[ci[1e-3]], L[ci[0.5]], 1e-3, 0.5)
            if _rel(s_l, 1 / rc.k_1) > 1e-9:
                viol.append(("C08/slope-above-knee", {"P": P, "direction": "load(cycles)", "got": s_l, "1/k_1": 1 / rc.k_1}))

        # ---- allowable cycles grow with P; N_90 / N_10 = TN ----------------------------------------------------
        order = sorted(targets)
        for a, b in zip(order[:-1], order[1:]):
            if np.any(NP[b] < NP[a] * (1 - 1e-12)):
                i = int(np.argmax(NP[b] < NP[a] * (1 - 1e-12)))
                viol.append(("C08/cycles-not-growing-with-P", {"P_low": a, "P_high": b, "load": loads[i],
                                                               "N_low": float(NP[a][i]), "N_high": float(NP[b][i])}))
                break
        top = max(knee[0.1][0], knee[0.9][0])
        sel = larr >= top * (1 + 1e-9)
        if sel.any():
            ratio = NP[0.9][sel] / NP[0.1][sel]
            i = _first_bad(ratio, [rc.TN] * int(sel.sum()), 1e-9)
            if i is not None:
                viol.append(("C08/TN-quantile-ratio", {"load": float(larr[sel][i]), "N_90/N_10": float(ratio[i]), "TN": rc.TN}))

        # ---- Miner variants ---------------------------------------------------------------------------------------
        for name, k2_new in (("original", INF), ("elementary", rc.k_1), ("haibach", 2 * rc.k_1 - 1)):
            m = getattr(w, "miner_" + name)()
            nevals += 1
            mp = m.to_pandas()
            if float(mp.k_2) != k2_new:
                viol.append(("C08/miner/%s-k2" % name, {"got": float(mp.k_2), "expected": k2_new}))
            if not _fields_equal(mp, base, skip=("k_2",)):
                viol.append(("C08/miner/%s-alters-other-fields" % name, {"got": mp.to_dict(), "base": base.to_dict()}))
            if not _fields_equal(w.to_pandas(), base) or not wc.equals(wc_before):
                viol.append(("C08/miner/%s-alters-original" % name, {"before": base.to_dict(), "after": w.to_pandas().to_dict(),
                                                                     "input_series": wc.to_dict()}))
            rm = ref.Curve(rc.k_1, rc.SD, rc.ND, k2_new, rc.TN, rc.TS, rc.P)
            probe = [0.5 * knee[0.9][0], 2.0 * knee[0.9][0]]
            got = np.asarray(m.cycles(np.array(probe), 0.9), dtype=float)
            nevals += 1
            exp = [_safe(rm.cycles, s, 0.9) for s in probe]
            if _first_bad(got, exp, RTOL) is not None:
                viol.append(("C08/miner/%s-cycles" % name, {"loads": probe, "got": got.tolist(), "expected": exp}))
        if not wc.equals(wc_before):
            viol.append(("C08/input-series-altered", {"before": wc_before.to_dict(), "after": wc.to_dict()}))

        # ---- broadcast over loads = element-wise scalar evaluation (single curve) -----------------------------------
        P = 0.975
        pick = [loads[0], knee[P][0], loads[-1]]
        elem = [float(w.cycles(float(s), P)) for s in pick]
        nevals += 3
        idx = [loads.index(s) for s in pick]
        if _first_bad(elem, NP[P][idx], 1e-13) is not None:
            viol.append(("C08/broadcast/array-vs-scalar", {"loads": pick, "scalar": elem, "array": NP[P][idx].tolist()}))
        sidx = pd.Index(["p", "q", "r"], name="lc")
        sres = w.cycles(pd.Series(pick, index=sidx), P)
        nevals += 1
        if not isinstance(sres, pd.Series) or not sres.index.equals(sidx) or _first_bad(sres.to_numpy(), elem, 1e-13) is not None:
            viol.append(("C08/broadcast/series-load", {"loads": pick, "scalar": elem, "series": repr(sres)}))
        ints = np.array([1, 100, 400])
        gi = np.asarray(w.cycles(ints, P), dtype=float)
        gf = np.asarray(w.cycles(ints.astype(float), P), dtype=float)
        nevals += 2
        if _first_bad(gi, gf, 0.0) is not None:
            viol.append(("C08/broadcast/integer-load", {"int": gi.tolist(), "float": gf.tolist()}))
        # integer-typed arguments in every container (python int, np.int64, int64 array), both directions: the numbers
        # of the float argument ("for every load/cycle value": 20000 is the same cycle number as 20000.0)
        for what, fn, vals in (("cycles", w.cycles, (1, 100, 400)), ("load", w.load, (1000, 20000, 10 ** 7))):
            for Pq in (P, native):
                ref_f = [float(np.asarray(fn(float(v), Pq), dtype=float)) for v in vals]
                got_c = {"python-int": [float(np.asarray(fn(int(v), Pq), dtype=float)) for v in vals],
                         "np.int64": [float(np.asarray(fn(np.int64(v), Pq), dtype=float)) for v in vals],
                         "int64-array": np.asarray(fn(np.array(vals, dtype=np.int64), Pq), dtype=float).tolist()}
                nevals += 10
                for cont, got in got_c.items():
                    if _first_bad(got, ref_f, 1e-13) is not None:
                        viol.append(("C08/broadcast/integer-%s-argument/%s" % ("load" if what == "cycles" else "cycles", cont),
                                     {"direction": what, "P": Pq, "values": list(vals), "integer_argument": got, "float_argument": ref_f}))
                        break
        fat = np.asarray(wc.fatigue.cycles(larr, P), dtype=float)
        nevals += 1
        if _first_bad(fat, NP[P], 0.0) is not None:
            viol.append(("C08/fatigue-accessor-differs", {"fatigue": fat.tolist(), "woehler": NP[P].tolist()}))
    except Exception as e:  # pyLife raised where the property expects a value
        import traceback
        tb = traceback.extract_tb(e.__traceback__)
        where = [f for f in tb if "/pylife/" in f.filename]
        if not where:
            raise
        viol.append(("C08/raises-%s" % type(e).__name__, {"error": str(e)[:300], "where": "%s:%s" % (where[-1].filename.split("/pylife/")[-1], where[-1].name)}))
        return viol, False, ("raised", type(e).__name__), nevals

    nontrivial = (rc.TN > 1 or rc.TS > 1) and rc.k_2 != rc.k_1
    outcome = tuple(round(math.log(x), 9) if math.isfinite(x) else 9e9 for x in NP[0.9])
    return viol, nontrivial, outcome, nevals


# ---- broadcast part: DataFrames of curves ---------------------------------------------------------------------
BC_LAYOUTS = ("scalar", "array", "series-cross", "series-same-name", "series-same-name-permuted", "P-array")


def _bc_menu():
    return [
        {"k_1": 3.0, "k_2": "inf", "SD": 100.0, "ND": 1e6, "TN": None, "TS": None, "P": None},
        {"k_1": 5.0, "k_2": "haibach", "SD": 100.0, "ND": 1e6, "TN": 4.0, "TS": None, "P": None},
        {"k_1": 3.0, "k_2": "k1", "SD": 317.3, "ND": 2.5e6, "TN": 12.0, "TS": 1.2, "P": 0.1},
        {"k_1": 12.0, "k_2": 22.0, "SD": 1.0, "ND": 1e4, "TN": None, "TS": 1.2, "P": 0.9},
        {"k_1": 1.5, "k_2": "inf", "SD": 50.0, "ND": 2e6, "TN": 1.2, "TS": 4.0, "P": 0.025},
        {"k_1": 5.0, "k_2": 22.0, "SD": 200.0, "ND": 1e5, "TN": 1.0, "TS": 1.0, "P": 0.5},
    ]


def _bc_cases(tier):
    menu = range(len(_bc_menu()))
    frames = list(itertools.permutations(menu, 2))
    if tier != "quick":
        frames += list(itertools.permutations(menu, 3))
    return [{"rows": list(rows), "layout": lay, "P": P} for rows in frames for lay in BC_LAYOUTS for P in (0.5, 0.1)]


def check_broadcast(case):
    import pandas as pd
    import pylife.materiallaws  # noqa: F401
    menu = _bc_menu()
    rows = [menu[i] for i in case["rows"]]
    refs = [_ref(c) for c in rows]
    labels = ["c%d" % i for i in case["rows"]]
    P, lay = case["P"], case["layout"]
    viol, nevals = [], 0
    data = {}
    for key, fn in (("k_1", lambda r: r.k_1), ("k_2", lambda r: r.k_2), ("SD", lambda r: r.SD), ("ND", lambda r: r.ND),
                    ("TN", lambda r: r.TN), ("TS", lambda r: r.TS), ("failure_probability", lambda r: r.P)):
        data[key] = [fn(r) for r in refs]
    df = pd.DataFrame(data, index=pd.Index(labels, name="curve"))
    df_before = df.copy()
    n = len(rows)
    knees = [r.knee(P) for r in refs]
    try:
        w = df.woehler
        singles = [pd.Series({k: data[k][i] for k in data}).woehler for i in range(n)]

        def expect(i, x, what):
            """element-wise scalar evaluation of curve i on the real code"""
            f = singles[i].cycles if what == "cycles" else singles[i].load
            return float(f(float(x), P))

        for what in ("cycles", "load"):
            fn = getattr(w, what)
            # arguments: per curve one value below, one above its own knee (alternating) -> branches differ between rows
            ref_val = [k[0] if what == "cycles" else k[1] for k in knees]
            if lay == "scalar":
                x = 150.0 if what == "cycles" else 3e5
                got = np.asarray(fn(x, P), dtype=float)
                exp = [expect(i, x, what) for i in range(n)]
                nevals += 1 + n
                pairs = list(zip(got.tolist(), exp)) if got.shape == (n,) else None
            elif lay == "array":
                xs = [ref_val[i] * (0.5 if i % 2 == 0 else 2.0) for i in range(n)]
                got = np.asarray(fn(np.array(xs), P), dtype=float)
                exp = [expect(i, xs[i], what) for i in range(n)]
                nevals += 1 + n
                pairs = list(zip(got.tolist(), exp)) if got.shape == (n,) else None
            elif lay == "series-cross":
                xs = [ref_val[0] * 0.5, ref_val[-1] * 2.0, ref_val[0]]
                ser = pd.Series(xs, index=pd.Index([7, 8, 9], name="lc"))
                res = fn(ser, P)
                nevals += 1 + 3 * n
                pairs = None
                if isinstance(res, pd.Series) and len(res) == 3 * n and set(res.index.names) == {"curve", "lc"}:
                    res = res.reorder_levels(["curve", "lc"])
                    pairs = [(float(res.loc[(labels[i], j)]), expect(i, xs[jj], what)) for i in range(n) for jj, j in enumerate((7, 8, 9))]
                got = res
            elif lay in ("series-same-name", "series-same-name-permuted"):
                xs = [ref_val[i] * (0.5 if i % 2 == 0 else 2.0) for i in range(n)]
                order = list(range(n)) if lay == "series-same-name" else list(reversed(range(n)))
                ser = pd.Series([xs[i] for i in order], index=pd.Index([labels[i] for i in order], name="curve"))
                res = fn(ser, P)
                nevals += 1 + n
                pairs = None
                if isinstance(res, pd.Series) and len(res) == n and list(res.index.names) == ["curve"]:
                    pairs = [(float(res.loc[labels[i]]), expect(i, xs[i], what)) for i in range(n)]
                got = res
            else:  # P-array: one curve row, probabilities as array -> element-wise over P
                x = ref_val[0] * 2.0
                Ps = np.array([P, 0.9, 0.5])
                f1 = getattr(singles[0], what)
                got = np.asarray(f1(x, Ps), dtype=float)
                exp = [float(f1(x, float(p))) for p in Ps]
                nevals += 4
                pairs = list(zip(got.tolist(), exp)) if got.shape == (3,) else None
            if pairs is None:
                viol.append(("C08/broadcast/%s-shape" % lay, {"what": what, "got": repr(got)[:400]}))
            else:
                for g, e in pairs:
                    if _rel(g, e) > 1e-13:
                        viol.append(("C08/broadcast/%s" % lay, {"what": what, "pairs(got, element-wise)": pairs}))
                        break
        if not df.equals(df_before) or list(df.index.names) != ["curve"]:
            viol.append(("C08/broadcast/input-frame-altered", {"after": df.to_dict()}))
    except Exception as e:
        import traceback
        tb = traceback.extract_tb(e.__traceback__)
        where = [f for f in tb if "/pylife/" in f.filename]
        if not where:
            raise
        viol.append(("C08/broadcast/%s-raises-%s" % (lay, type(e).__name__), {"error": str(e)[:300], "where": "%s:%s" % (where[-1].filename.split("/pylife/")[-1], where[-1].name)}))
    return viol, nevals


# ---- scatter range <-> standard deviation ---------------------------------------------------------------------
CONV_T = (1.0, 1.0001, 1.04, 1.2, 2.0, 4.0, 12.0, 100.0, 1e6)
CONV_S = (0.0, 1e-6, 0.01, 0.0316, 0.1, 0.39015207303618954, 1.0, 3.0)


def check_conversion(kind, x):
    from pylife.utils.functions import scattering_range_to_std, std_to_scattering_range
    viol = []
    if kind == "T":
        s = float(scattering_range_to_std(x))
        if abs(s - ref.scatter_to_std(x)) > 1e-12 * max(1.0, abs(s)):
            viol.append(("C08/scatter-conversion/range-to-std", {"T": x, "got": s, "expected": ref.scatter_to_std(x)}))
        if _rel(10 ** (2 * ref.Z90 * s), x) > 1e-12:
            viol.append(("C08/scatter-conversion/T-is-not-10^(2 z90 s)", {"T": x, "std": s}))
        back = float(std_to_scattering_range(s))
        if _rel(back, x) > 1e-12:
            viol.append(("C08/scatter-conversion/not-inverse", {"T": x, "std": s, "back": back}))
        arr = np.asarray(scattering_range_to_std(np.array([x, x])), dtype=float)
        if arr.shape != (2,) or arr[0] != s or arr[1] != s:
            viol.append(("C08/scatter-conversion/array", {"T": x, "got": arr.tolist()}))
    else:
        T = float(std_to_scattering_range(x))
        if _rel(T, ref.std_to_scatter(x)) > 1e-12:
            viol.append(("C08/scatter-conversion/std-to-range", {"std": x, "got": T, "expected": ref.std_to_scatter(x)}))
        back = float(scattering_range_to_std(T))
        if abs(back - x) > 1e-12 * max(1.0, x):
            viol.append(("C08/scatter-conversion/not-inverse", {"std": x, "T": T, "back": back}))
    return viol



# ---- call histories on kept curve objects -------------------------------------------------------------------------
# Every sequence of calls up to a depth on two object slots: K, the accessor obtained once from the caller's Series and
# kept, and D, whatever the last constructor call returned (transform_to_failure_probability / miner_*; applied to K or
# to D itself).  Queries: cycles / load at a point on either side of the knee, at the native and at another probability,
# on K and on D.  Oracle for every answer: the plain-Python reference curve with the k_2 the slot's Miner history gives
# it (a probability transformation describes the same curve); K and the caller's Series never change.
HIST_DEPTH = {"quick": 3, "thorough": 4}
HIST_CURVES = {"quick": [{"k_1": 5.0, "k_2": 13.0, "SD": 300.0, "ND": 1e6, "TN": 4.0, "TS": 1.3, "P": None}],
               "thorough": [{"k_1": 5.0, "k_2": 13.0, "SD": 300.0, "ND": 1e6, "TN": 4.0, "TS": 1.3, "P": None},
                            {"k_1": 3.0, "k_2": "inf", "SD": 100.0, "ND": 2.5e6, "TN": 12.0, "TS": None, "P": 0.1}]}
_H_QUERIES = [(what, side, P) for what in ("cycles", "load") for side in ("lo", "hi") for P in ("native", 0.1)]
_H_MAKERS = ["transform-0.1", "transform-0.9", "miner_elementary", "miner_haibach", "miner_original"]
HIST_OPS = [(slot, "q") + q for slot in "KD" for q in _H_QUERIES] + [(src, "make", m) for src in "KD" for m in _H_MAKERS]


def _hist_name(op):
    return "%s.%s" % (op[0], "%s(%s,P=%s)" % op[2:] if op[1] == "q" else op[2])


def history_run(case, seq):
    import pylife.materiallaws  # noqa: F401
    cv = {k: case[k] for k in ("k_1", "k_2", "SD", "ND", "TN", "TS", "P")}
    rc = _ref(cv)
    wc = _series(cv)
    before = wc.copy()
    native = rc.P
    try:
        K = wc.woehler
        base = K.to_pandas().copy()
        slots = {"K": (K, rc.k_2), "D": None}
        arg = {("cycles", "lo"): 0.5 * rc.SD, ("cycles", "hi"): 2.0 * rc.SD, ("load", "lo"): rc.ND / 100.0, ("load", "hi"): rc.ND * 100.0}
        for depth, oi in enumerate(seq):
            op = HIST_OPS[oi]
            if slots[op[0]] is None:
                continue                                       # nothing has been derived yet
            obj, k2 = slots[op[0]]
            if op[1] == "make":
                if op[2].startswith("transform"):
                    slots["D"] = (obj.transform_to_failure_probability(float(op[2].split("-")[1])), k2)
                else:
                    k2n = {"miner_elementary": rc.k_1, "miner_haibach": 2 * rc.k_1 - 1, "miner_original": INF}[op[2]]
                    slots["D"] = (getattr(obj, op[2])(), k2n)
            else:
                _, _, what, side, P = op
                Pq = native if P == "native" else P
                x = arg[(what, side)]
                got = float(np.asarray(getattr(obj, what)(x, Pq), dtype=float))
                rm = ref.Curve(rc.k_1, rc.SD, rc.ND, k2, rc.TN, rc.TS, rc.P)
                exp = _safe(getattr(rm, what), x, Pq)
                if _rel(got, exp) > RTOL:
                    return [("C08/history/%s-of-a-kept-object-differs-from-the-curve" % what,
                             {"at": depth, "call": _hist_name(op), "argument": x, "P": Pq, "got": got, "expected": exp, "k_2_of_the_slot": k2})]
            if not wc.equals(before):
                return [("C08/history/input-series-altered", {"at": depth, "call": _hist_name(op), "after": wc.to_dict()})]
            if not _fields_equal(K.to_pandas(), base):
                return [("C08/history/kept-object-altered", {"at": depth, "call": _hist_name(op), "before": base.to_dict(), "after": K.to_pandas().to_dict()})]
    except Exception as e:
        import traceback
        where = [f for f in traceback.extract_tb(e.__traceback__) if "/pylife/" in f.filename]
        if not where:
            raise
        return [("C08/history/raises-%s" % type(e).__name__, {"error": str(e)[:300], "where": "%s:%s" % (where[-1].filename.split("/pylife/")[-1], where[-1].name)})]
    return []


def run_history(shard, acc):
    _, case, depth, prefix = shard
    nops = range(len(HIST_OPS))
    for d in range(max(1, len(prefix)), depth + 1):
        for rest in itertools.product(nops, repeat=d - len(prefix)):
            seq = tuple(prefix) + rest
            acc.cases += 1
            acc.max_depth = max(acc.max_depth, d)
            acc.transitions += d
            acc.evaluations += d
            made = [i for i in seq if HIST_OPS[i][1] == "make"]
            if made and HIST_OPS[seq[-1]][1] == "q":
                acc.nontrivial += 1
            for key, detail in history_run(case, seq):
                acc.violation(key, dict(case, kind="history", seq=list(seq), ops=[_hist_name(HIST_OPS[i]) for i in seq]), detail)
    acc.count("history_shards")


# ---------------------------------------------------------------------------------------------------------
def run_shard(shard):
    acc = Acc()
    if shard[0] == "history":
        run_history(shard, acc)
        return acc
    if shard[0] == "conv":
        acc.sample({"scatter_conversion_lattice": {"T": CONV_T, "std": CONV_S}})
        for kind, vals in (("T", CONV_T), ("std", CONV_S)):
            for x in vals:
                acc.cases += 1
                acc.evaluations += 3
                acc.count("scatter_conversion_cases")
                viol = check_conversion(kind, x)
                acc.outcome((kind, x))
                for key, detail in viol:
                    acc.violation(key, {"kind": "conv", "which": kind, "x": x}, detail)
        return acc
    if shard[0] == "bc":
        for case in shard[1]:
            acc.cases += 1
            acc.count("broadcast_cases")
            viol, nev = check_broadcast(case)
            acc.evaluations += nev
            acc.nontrivial += 1
            acc.outcome(("bc", case["rows"], case["layout"], case["P"]))
            for key, detail in viol:
                acc.violation(key, dict(case, kind="bc"), detail)
        return acc
    for case in shard[1]:
        acc.cases += 1
        acc.count("curve_cases")
        viol, nontrivial, outcome, nev = check_curve(case)
        acc.evaluations += nev
        if nontrivial:
            acc.nontrivial += 1
        if len(acc.samples) < 1 and case["k_2"] == "haibach" and case["TS"] is not None:
            acc.sample({"curve": case, "ln N over the union load lattice at P=0.9 (first 8)": list(outcome[:8])})
        if _k2_value(case) == INF:
            acc.count("curves_with_endurance_plateau (cycles(load(N)) not judged for N > ND)")
        acc.outcomes.add(hash(outcome))
        for key, detail in viol:
            acc.violation(key, dict(case, kind="curve"), detail)
    return acc


def replay(case):
    kind = case.get("kind", "curve")
    if kind == "history":
        return history_run(case, case["seq"])
    if kind == "conv":
        return check_conversion(case["which"], case["x"])
    if kind == "bc":
        return check_broadcast(case)[0]
    return check_curve(case)[0]
