"""C05 - HCM stress-strain bookkeeping matches the guideline procedure, point by point.

Every load sequence of the scope is run through the real FKMNonlinearDetector/Recorder (two passes) and
compared column by column with the independent reference mc/refs/hcm_nonlinear.py evaluated with the *same
law object*; multi-point batches are compared with single-point runs; negated loads with mirrored results.
"""
import itertools
import warnings

import numpy as np
import pandas as pd

from mc import build_ext
from mc.explore import Acc, chunked
from mc.refs import hcm_nonlinear as ref
from mc.refs.periodic_rainflow import junction_features

ID = "C05"
LEVEL = "exploration"
RULE = ("all load sequences of length 2..n over 100*{-2..2} (>=2 distinct values) x law configurations, each compared row by "
        "row / value by value with the reference; all ordered point sets of size 1..3 over load ratios {0.5,1,1.3,2} x template "
        "and short sequences (batch = single); every sequence vs its negation (mirror); non-trivial = sequence whose reference "
        "run records >=2 hystereses including a Memory-3 half loop or a nested (Memory 2) continuation")
ASSUMPTIONS = [
    "the reference calls the same law object with the same arguments, so agreement is demanded to rtol 1e-11 (no solver tolerance enters)",
    "pass k processes the reversals of the k-th repetition of the sequence ([0]+seq for k=1); a plateau is a reversal at its first sample",
    "multi-point histories are proportional (the property's quantifier); decisions are taken on the first point",
]
SCALE = 100.0
A5 = (-2, -1, 0, 1, 2)
RTOL, ATOL = 1e-11, 1e-13
NT = (-10.00001, -10.000005, -10, -5, 5, 10, 10.000005, 10.00001)      # near ties, see c04.py
PARAMS = [(206e3, 1184.0, 0.187, 3.5), (70e3, 600.0, 0.128, 2.0)]
LAWKINDS = ("binned-neuber", "binned-seegerbeste", "exact-neuber")
RATIOS = (0.5, 1.0, 1.3, 2.0)
EDGE_MAXIMA = (300.0, 123.0, 260.0)
TEMPLATES = [
    [100, -100, 100, -200, -100, -200, 200, 0, 200, -200],
    [100, 0, 80, 20, 60, 40],
    [20, 60, 100, 6, 150, 20, 8, 40, 150, 70, 20],
    [-200, 200, -150, 150, -100, 100, -50, 50, 0, 50, -200],
    [50, -60, 70, -80, 90, -100, 110, -30],
    [100, 100, 50, 0, -50, -100, -100, 0, 100, 150, 120, 150, -20],
    [-120, 80, -40, 60, -150, 30, -150],
    [0, 100, -100, 50, -100],
]
COLS = ("loads_min", "loads_max", "S_min", "S_max", "R", "epsilon_min", "epsilon_max", "S_a", "S_m", "epsilon_a", "epsilon_m",
        "epsilon_min_LF", "epsilon_max_LF", "is_closed_hysteresis", "is_zero_mean_stress_and_strain", "run_index")


def bounds(tier):
    if tier == "quick":
        return {"main": {"law": "binned-neuber/params0", "alphabet": [SCALE * a for a in A5], "n": [2, 5]},
                "other_laws": {"laws": "5 further (law, parameter) configurations", "n": [2, 4]},
                "near_ties": {"alphabet": [SCALE * v for v in NT], "n": [2, 3], "law": "binned-neuber/params0"},
                "batch": {"ratios": RATIOS, "point_sets": "all ordered subsets of size 1..3 (40)", "sequences": "8 templates; 6 point sets x all n<=3 sequences"},
                "batch_layouts(two-point batches)": BATCH_LAYOUTS,
                "batch_class_edges": {"maxima": EDGE_MAXIMA, "sequences": "[k*M/100, -M] and [-M, k*M/100] for k=1..99, points (1, 2)"},
                "mirror": {"n": [2, 4]}}
    return {"main": {"law": "all 6 (law, parameter) configurations", "alphabet": [SCALE * a for a in A5], "n": [2, 6]},
            "near_ties": {"alphabet": [SCALE * v for v in NT], "n": [2, 4], "law": "binned-neuber/params0"},
            "batch": {"ratios": RATIOS, "point_sets": "all ordered subsets of size 1..3 (40)", "sequences": "8 templates and all n<=4 sequences"},
            "mirror": {"n": [2, 6]}}


def prepare(tier):
    build_ext.ensure()
    warnings.simplefilter("ignore", RuntimeWarning)


def _seqs(n):
    for s in itertools.product(A5, repeat=n):
        if len(set(s)) >= 2:
            yield [SCALE * v for v in s]


def shards(tier):
    out = []
    configs = [(k, p) for p in range(len(PARAMS)) for k in LAWKINDS]
    nmain = 5 if tier == "quick" else 6
    for n in range(2, nmain + 1):
        for ci, cfg in enumerate(configs):
            if tier == "quick" and ci > 0 and n > 4:
                continue
            for block in chunked(_seqs(n), 80):
                out.append(("single", cfg, block, n <= (4 if tier == "quick" else 6) and ci == 0))
    for n in range(2, (3 if tier == "quick" else 4) + 1):
        near = [[SCALE * v for v in t] for t in itertools.product(NT, repeat=n) if len(set(t)) >= 2]
        for block in chunked(near, 80):
            out.append(("single", configs[0], block, False))
    sets = [c for k in (1, 2, 3) for c in itertools.permutations(RATIOS, k)]
    for t in TEMPLATES:
        for block in chunked(sets, 10):
            out.append(("batch", [float(v) for v in t], block))
    # class-edge sweep: loads and load ranges exactly on every class edge of the first point's look-up table, for maxima
    # whose edges k/100*max are not exactly representable (where a table look-up and an arithmetic class index part ways)
    for M in EDGE_MAXIMA if tier == "quick" else EDGE_MAXIMA + (70.0, 1266.25):
        sweep = [[k * M / 100.0, -M] for k in range(1, 100)] + [[-M, k * M / 100.0] for k in range(1, 100)]
        for block in chunked(sweep, 25):
            out.append(("batch-short", block, [(1.0, 2.0)]))
    short = [s for n in (2, 3) + ((4,) if tier != "quick" else ()) for s in _seqs(n)]
    few = [(1.0, 2.0), (2.0, 1.0), (1.3, 0.5), (0.5, 1.0, 2.0), (2.0, 1.3, 1.0), (1.0, 0.5, 1.3)]
    for block in chunked(short, 20):
        out.append(("batch-short", block, few if tier == "quick" else sets))
    return out


# -- laws ---------------------------------------------------------------------------------------------------
class SeriesAdapter:
    """Gives an exact (un-binned) law the Series-in/Series-out interface the detector expects."""

    def __init__(self, law):
        self._law = law
        self.ramberg_osgood_relation = law.ramberg_osgood_relation

    def _wrap(self, fn, *args):
        if any(isinstance(a, pd.Series) for a in args):
            vals = [np.asarray(a, dtype=float) if isinstance(a, pd.Series) else a for a in args]
            first = next(a for a in args if isinstance(a, pd.Series))
            return pd.Series(np.asarray(fn(*vals), dtype=float), index=first.index)
        return float(np.asarray(fn(*[np.asarray([a], dtype=float) for a in args])).ravel()[0])

    def stress(self, load, **kw):
        return self._wrap(self._law.stress, load)

    def strain(self, stress, load):
        return self._wrap(self._law.strain, stress, load)

    def stress_secondary_branch(self, dl, **kw):
        return self._wrap(self._law.stress_secondary_branch, dl)

    def strain_secondary_branch(self, ds, dl):
        return self._wrap(self._law.strain_secondary_branch, ds, dl)


_LAWS = {}


def _law(kind, pidx, lmax):
    """lmax: float or per-node Series"""
    import pylife.materiallaws.notch_approximation_law as NAL
    from pylife.materiallaws.notch_approximation_law_seegerbeste import SeegerBeste
    key = (kind, pidx, lmax if isinstance(lmax, float) else tuple(lmax.items()))
    if key not in _LAWS:
        E, K, n, Kp = PARAMS[pidx]
        if kind == "binned-neuber":
            law = NAL.Binned(NAL.ExtendedNeuber(E, K, n, Kp), lmax, 100)
        elif kind == "binned-seegerbeste":
            law = NAL.Binned(SeegerBeste(E, K, n, Kp), lmax, 100)
        else:
            law = SeriesAdapter(NAL.ExtendedNeuber(E, K, n, Kp))
        if len(_LAWS) > 400:
            _LAWS.clear()
        _LAWS[key] = law
    return _LAWS[key]


def run_single(seq, law):
    import pylife.stress.rainflow.fkm_nonlinear as FN
    import pylife.stress.rainflow.recorders as RFR
    rec = RFR.FKMNonlinearRecorder()
    det = FN.FKMNonlinearDetector(recorder=rec, notch_approximation_law=law)
    loads = np.array(seq, dtype=float)
    det.process_hcm_first(loads)
    # what a caller sees who asks between the passes (the assessment keeps a deep copy of the detector at this moment)
    import copy
    len(rec.collective)                      # ... and reads the hystereses recorded so far
    snap = copy.deepcopy(det)
    det.between_passes = (np.asarray(det.strain_values_first_run, dtype=float).tolist(), np.asarray(det.strain_values_second_run, dtype=float).tolist(),
                          np.asarray(snap.strain_values_first_run, dtype=float).tolist(), np.asarray(snap.strain_values_second_run, dtype=float).tolist())
    det.process_hcm_second(loads)
    return rec.collective, det


def _two_chunks(seq):
    """Two DIFFERENT chunks for two process() calls: the sequence ending in a plateau (last sample repeated), then the
    sequence backwards - the plateau becomes a turning point only when the second chunk arrives."""
    seq = [float(v) for v in seq]
    return seq + seq[-1:], seq[::-1]


def run_single_two_chunks(seq, law):
    import pylife.stress.rainflow.fkm_nonlinear as FN
    import pylife.stress.rainflow.recorders as RFR
    rec = RFR.FKMNonlinearRecorder()
    det = FN.FKMNonlinearDetector(recorder=rec, notch_approximation_law=law)
    a, b = _two_chunks(seq)
    det.process(np.array(a, dtype=float))
    det.process(np.array(b, dtype=float))
    return rec.collective, det


def _step_labels(n, layout):
    """load_step labels in row (= time) order; the detector takes the row order, labels are arbitrary"""
    if layout == "desc":
        return [10 * (n - i) for i in range(n)]
    if layout == "shuffled":
        return [(7 * i + 3) % n if np.gcd(7, n) == 1 else (n - 1 - i if i % 2 else i) for i in range(n)] if n > 2 else [5, 2][:n]
    return list(range(n))


def run_multi(seq, ratios, kind, pidx, layout="asc"):
    import pylife.stress.rainflow.fkm_nonlinear as FN
    import pylife.stress.rainflow.recorders as RFR
    seq = np.array(seq, dtype=float)
    nodes = [11 + 3 * i for i in range(len(ratios))]
    if layout == "nodes":
        nodes = nodes[-1:] + nodes[:-1]         # node ids neither ascending nor (for > 2 points) descending: 17, 11, 14
    if layout == "node-major":
        # rows stored node by node (all load steps of the first node, then the second, ...), e.g. pd.concat of per-node histories
        parts = {node: pd.Series(r * seq, index=pd.RangeIndex(len(seq), name="load_step")) for node, r in zip(nodes, ratios)}
        signal = pd.concat(parts, names=["node_id"]).swaplevel()
        signal.index.names = ["load_step", "node_id"]
    elif layout == "sliced":
        # the signal is a slice of a longer recording: its MultiIndex still carries the dropped load steps as unused level values
        long = np.concatenate([[777.0], seq[:1], [-555.0], seq[1:], [333.0]])
        df = pd.DataFrame({node: r * long for node, r in zip(nodes, ratios)})
        df["load_step"] = range(len(long))
        full = df.set_index("load_step").stack()
        full.index.names = ["load_step", "node_id"]
        keep = ~full.index.get_level_values("load_step").isin([0, 2, len(long) - 1])
        signal = full[keep]
    elif layout == "two-chunks":
        a, b = _two_chunks(seq)
        parts = []
        for start, chunk in ((0, a), (len(a), b)):
            df = pd.DataFrame({node: r * np.array(chunk) for node, r in zip(nodes, ratios)})
            df["load_step"] = range(start, start + len(chunk))
            sig = df.set_index("load_step").stack()
            sig.index.names = ["load_step", "node_id"]
            parts.append(sig)
        law = _law(kind, pidx, pd.concat(parts).abs().groupby("node_id", sort=False).max())
        rec = RFR.FKMNonlinearRecorder()
        det = FN.FKMNonlinearDetector(recorder=rec, notch_approximation_law=law)
        det.process(parts[0])
        det.process(parts[1])
        return rec.collective
    else:
        df = pd.DataFrame({node: r * seq for node, r in zip(nodes, ratios)})
        df["load_step"] = _step_labels(len(seq), layout)
        signal = df.set_index("load_step").stack()
        signal.index.names = ["load_step", "node_id"]
    # per-point maxima in the order in which the points appear in every load step (the tables are matched by position)
    law = _law(kind, pidx, signal.abs().groupby("node_id", sort=False).max())
    rec = RFR.FKMNonlinearRecorder()
    det = FN.FKMNonlinearDetector(recorder=rec, notch_approximation_law=law)
    det.process_hcm_first(signal)
    det.process_hcm_second(signal)
    return rec.collective


def _cls(seq):
    f = junction_features([v / SCALE for v in seq])
    return "+".join(f) if f else "benign"


def _col(c, name):
    return np.asarray(c[name], dtype=float)


def compare_with_reference(seq, kind, pidx):
    """-> (violations, info)"""
    lmax = float(np.abs(seq).max())
    law = _law(kind, pidx, lmax)
    cfg = "%s/params%d" % (kind, pidx)
    cls = _cls(seq)
    try:
        c, det = run_single(seq, law)
    except Exception as e:  # noqa: BLE001
        return [("C05/raises-%s/%s" % (type(e).__name__, cls), {"law": cfg, "error": str(e)[:200]})], {"rows": 0, "m3": 0}
    rows, strains, n1 = ref.reference(law, seq, passes=2)
    viol = []
    if len(c) != len(rows):
        viol.append(("C05/number-of-hystereses/" + cls, {"law": cfg, "got": len(c), "expected": len(rows),
                                                         "got_rows": list(zip(c.run_index.tolist(), c.loads_min.tolist(), c.loads_max.tolist())),
                                                         "expected_rows": [(r["run_index"], r["loads_min"], r["loads_max"]) for r in rows]}))
    else:
        for name in COLS:
            got = _col(c, name)
            exp = np.array([float(r[name]) for r in rows], dtype=float)
            if not np.allclose(got, exp, rtol=RTOL, atol=ATOL, equal_nan=True):
                viol.append(("C05/column-%s/%s" % (name, cls), {"law": cfg, "got": got.tolist(), "expected": exp.tolist()}))
                break
    if not viol:
        for name, got, exp in (("strain_values", det.strain_values, strains), ("strain_values_first_run", det.strain_values_first_run, strains[:n1]),
                               ("strain_values_second_run", det.strain_values_second_run, strains[n1:])):
            got = np.asarray(got, dtype=float)
            if got.shape != (len(exp),) or not np.allclose(got, np.array(exp, dtype=float), rtol=RTOL, atol=ATOL):
                viol.append(("C05/%s/%s" % (name, cls), {"law": cfg, "got": got.tolist(), "expected": list(exp)}))
                break
    if not viol:
        first = np.asarray(det.strain_values_first_run, dtype=float).tolist()
        b1, b2, s1, s2 = det.between_passes
        if b1 != first or b2 or s1 != first or s2:
            viol.append(("C05/strain_values_first_run/asked-between-the-passes/%s" % cls,
                         {"law": cfg, "after_both_passes": first, "asked_after_pass_1": b1, "second_run_asked_after_pass_1": b2,
                          "deep_copy_taken_after_pass_1": [s1, s2]}))
    m3 = sum(1 for r in rows if not r["is_closed_hysteresis"])
    return viol, {"rows": len(rows), "m3": m3, "cls": cls, "frame": c}


def compare_mirror(seq, kind, pidx):
    lmax = float(np.abs(seq).max())
    law = _law(kind, pidx, lmax)
    try:
        c, d = run_single(seq, law)
        m, dm = run_single([-v for v in seq], law)
    except Exception:  # noqa: BLE001   (reported by compare_with_reference)
        return []
    if len(c) != len(m):
        return [("C05/mirror/number-of-hystereses", {"got": len(m), "expected": len(c)})]
    pairs = [("loads_min", "loads_max", -1), ("S_min", "S_max", -1), ("epsilon_min", "epsilon_max", -1), ("S_a", "S_a", 1), ("epsilon_a", "epsilon_a", 1),
             ("S_m", "S_m", -1), ("epsilon_m", "epsilon_m", -1), ("is_closed_hysteresis", "is_closed_hysteresis", 1),
             ("is_zero_mean_stress_and_strain", "is_zero_mean_stress_and_strain", 1), ("run_index", "run_index", 1),
             ("epsilon_min_LF", "epsilon_max_LF", -1)]
    for a, b, sign in pairs:
        for x, y in ((a, b), (b, a)):
            if not np.allclose(_col(m, x), sign * _col(c, y), rtol=RTOL, atol=ATOL, equal_nan=True):
                return [("C05/mirror/column-" + x, {"mirrored_run": _col(m, x).tolist(), "expected": (sign * _col(c, y)).tolist()})]
    if not np.allclose(np.asarray(dm.strain_values), -np.asarray(d.strain_values), rtol=RTOL, atol=ATOL):
        return [("C05/mirror/strain_values", {"mirrored_run": np.asarray(dm.strain_values).tolist()})]
    return []


BATCH_LAYOUTS = ("asc", "desc", "shuffled", "sliced", "nodes", "two-chunks", "node-major")


def compare_batch(seq, ratios, kind="binned-neuber", pidx=0, layout=None):
    if layout is None:
        # two-point batches additionally with load_step labels that are not ascending and as a slice of a longer signal
        out = []
        for lay in (BATCH_LAYOUTS if len(ratios) == 2 else ("asc", "nodes")):
            out += compare_batch(seq, ratios, kind, pidx, lay)
        return out
    sfx = "" if layout == "asc" else "/node-ids-not-ascending" if layout == "nodes" else \
        "/two-different-chunks" if layout == "two-chunks" else "/rows-stored-node-by-node" if layout == "node-major" else "/load_step-labels-" + layout
    try:
        cm = run_multi(seq, ratios, kind, pidx, layout)
    except Exception as e:  # noqa: BLE001
        return [("C05/batch%s/raises-%s" % (sfx, type(e).__name__), {"error": str(e)[:200], "layout": layout})]
    viol = []
    for k, r in enumerate(ratios):
        sseq = [r * v for v in seq]
        law = _law(kind, pidx, float(np.abs(sseq).max()))
        try:
            cs, _ = run_single_two_chunks(sseq, law) if layout == "two-chunks" else run_single(sseq, law)
        except Exception as e:  # noqa: BLE001   (the single-point run of this layout fails by itself: nothing to compare with)
            if layout == "two-chunks":
                return []
            raise e
        part = cm.xs(k, level="assessment_point_index") if len(cm) else cm
        if len(part) != len(cs):
            viol.append(("C05/batch%s/number-of-hystereses" % sfx, {"point": k, "ratio": r, "batch": len(part), "alone": len(cs), "layout": layout}))
            break
        bad = None
        for name in COLS:
            if not np.allclose(_col(part, name), _col(cs, name), rtol=RTOL, atol=ATOL, equal_nan=True):
                bad = name
                break
        if bad:
            viol.append(("C05/batch%s/column-%s" % (sfx, bad), {"point": k, "ratio": r, "batch": _col(part, bad).tolist(), "alone": _col(cs, bad).tolist(), "layout": layout}))
            break
    return viol


def run_shard(shard):
    prepare(None)
    acc = Acc()
    kind = shard[0]
    if kind == "single":
        _, (lawkind, pidx), block, mirror = shard
        for seq in block:
            acc.cases += 1
            viol, info = compare_with_reference(seq, lawkind, pidx)
            acc.evaluations += 2
            if mirror:
                viol += compare_mirror(seq, lawkind, pidx)
                acc.evaluations += 4
            if info["rows"] >= 2 and info["m3"] >= 1:
                acc.nontrivial += 1
                if not acc.samples and info["rows"] >= 4:
                    acc.sample({"sequence": seq, "law": "%s/params%d" % (lawkind, pidx), "hystereses": info["rows"], "memory3_rows": info["m3"]})
            acc.count("junction:" + info.get("cls", "raised"))
            acc.outcomes.add(hash((info["rows"], info["m3"], tuple(seq[:3]))))
            for key, detail in viol:
                acc.violation(key, {"kind": "single", "sequence": seq, "law": lawkind, "params": pidx, "mirror": mirror}, detail)
    elif kind == "batch":
        _, seq, sets = shard
        for ratios in sets:
            acc.cases += 1
            acc.evaluations += 2 * (1 + len(ratios)) * (len(BATCH_LAYOUTS) if len(ratios) == 2 else 2)
            if len(ratios) >= 2:
                acc.nontrivial += 1
            viol = compare_batch(seq, list(ratios))
            acc.outcomes.add(hash((tuple(seq), tuple(ratios))))
            for key, detail in viol:
                acc.violation(key, {"kind": "batch", "sequence": seq, "ratios": list(ratios)}, detail)
        acc.sample({"batch_sequence": seq, "point_sets": [list(r) for r in sets[:3]]})
    else:
        _, block, sets = shard
        for seq in block:
            for ratios in sets:
                acc.cases += 1
                acc.evaluations += 2 * (1 + len(ratios)) * (len(BATCH_LAYOUTS) if len(ratios) == 2 else 2)
                if len(ratios) >= 2:
                    acc.nontrivial += 1
                for key, detail in compare_batch(seq, list(ratios)):
                    acc.violation(key, {"kind": "batch", "sequence": seq, "ratios": list(ratios)}, detail)
    return acc


def replay(case):
    warnings.simplefilter("ignore", RuntimeWarning)
    if case["kind"] == "batch":
        return compare_batch(case["sequence"], case["ratios"])
    viol, _ = compare_with_reference(case["sequence"], case["law"], case["params"])
    if case.get("mirror"):
        viol += compare_mirror(case["sequence"], case["law"], case["params"])
    return viol
