"""C09 - FKM-nonlinear damage Woehler curves, P_RAM damage parameter, P_RAM damage accumulation, safety index,
load safety factors.

Parts (each a set of shards, all enumerated completely):
  curves   component curves P_RAM / P_RAJ from the real calculate_* chain (3 material groups x R_m ladder x P_A)
           plus synthetic admissible parameter sets, evaluated on a lattice with N = 1e3, the endurance knee and
           1e-9 steps on both sides of each
  pram     P_RAM(...).collective for all hysteresis rows of a (S_a, S_m, eps_a) lattice, per group x R_m x E,
           as one table and row by row
  acc      DamageCalculatorPRAM for *all* hysteresis tables with <= n1 first-pass and 1..n2 second-pass rows over a
           level alphabet x {closed, half}: lifetime_n_times_load_sequence / lifetime_n_cycles vs a literal
           accumulation loop (mc/refs/fkm_damage_c09.py); one family uses a curve with 1/d integer and levels
           that make every damage value a binary fraction, so sums that reach one *exactly* are decided exactly
  accbatch the same tables put as several assessment points into one collective (vectorised path)
  beta     compute_beta vs the negative standard normal quantile
  gamma    gamma_L of the three load-distribution accessors vs the guideline formulas
"""
import itertools
import math
import warnings
from fractions import Fraction

import numpy as np

from mc import build_ext
from mc.explore import Acc, chunked
from mc.refs import fkm_damage_c09 as ref

ID = "C09"
LEVEL = "exploration"
RULE = ("complete products of the stated lattices; accumulation: every table (ordered rows) over level alphabet x "
        "{closed, half} with n1 <= bound first-pass rows and 1..n2 second-pass rows, one table = one case; "
        "non-trivial (accumulation) = table whose literal loop needs the repetition formula with a non-zero first-pass "
        "damage, or fails early (sum reaches one inside the first traversal), or contains a half hysteresis with non-zero "
        "damage; other parts: every lattice point on a branch boundary counts (N = 1e3, endurance knee, S_m sign change, "
        "negative product, clamp active)")
ASSUMPTIONS = [
    "per-hysteresis N in the literal loop = the curve's two finite-life power laws continued below the endurance value "
    "(DESIGN.md C09), P_RAM = 0 does no damage",
    "lifetime convention (DESIGN.md C09): n_times = 1 + x (first pass = first traversal), n_cycles = n_times x hystereses "
    "per second pass; if the sum reaches one before the first traversal of the second pass ends: n_times = 0 and "
    "n_cycles = number of hystereses accumulated while the sum was still below one (the behaviour the class documents; "
    "the property text does not spell this branch out)",
    "mean stress constants a_M, b_M of FKM nonlinear table 2.14 typed into the reference independently",
    "gamma_L formulas eq. 2.3-4 .. 2.3-8 as quoted in the accessor documentation, beta from the guideline's table",
    "tolerances: curves 1e-9 relative on inverse pairs, continuity = relative step 1e-9 in the argument changes the value "
    "by <= 1e-7; accumulation 1e-9 relative (exact family: 1e-12, decisions exact); beta 1e-8 absolute; gamma_L 1e-12",
    "rainflow_ext is rebuilt from the working tree (parameter_calculations imports pylife.stress.rainflow)",
]

INF = math.inf


def prepare(tier):
    warnings.filterwarnings("ignore", category=SyntaxWarning)      # docstring escapes in pyLife modules, printed per worker otherwise
    build_ext.ensure()


# =====================================================================================================
# curves
# =====================================================================================================
GROUPS = ("Steel", "SteelCast", "Al_wrought")
# incl. tensile strengths for which the guideline's mean stress sensitivity a_M * 1e-3 * R_m + b_M leaves [0, 1] (Steel 200: < 0;
# Al_wrought 30: < 0, 1200: > 1): the formula is the formula, the property says "every tensile strength"
RM_LADDER = {"Steel": (200.0, 400.0, 600.0, 1000.0, 1400.0), "SteelCast": (400.0, 600.0, 1000.0), "Al_wrought": (30.0, 133.0, 270.0, 500.0, 1200.0)}
P_AS = (0.5, 7.2e-5)
SYNTH_RAM = [  # admissible: P_Z > P_D > 0, d < 0
    {"P_RAM_Z": 1.0, "P_RAM_D": 1.0 / 64, "d_1": -1.0, "d_2": -0.5},
    {"P_RAM_Z": 600.0, "P_RAM_D": 200.0, "d_1": -0.302, "d_2": -0.197},
    {"P_RAM_Z": 600.0, "P_RAM_D": 599.9, "d_1": -0.2, "d_2": -0.2},
    {"P_RAM_Z": 1e4, "P_RAM_D": 1e-3, "d_1": -0.05, "d_2": -3.0},
]
SYNTH_RAJ = [
    {"P_RAJ_Z": 1024.0, "P_RAJ_D_0": 1.0, "d_RAJ": -0.5},
    {"P_RAJ_Z": 500.0, "P_RAJ_D_0": 0.2, "d_RAJ": -0.63},
    {"P_RAJ_Z": 2.0, "P_RAJ_D_0": 1.999, "d_RAJ": -0.01},
]
EPS = 1e-9


def _curve_cases(tier):
    out = []
    for g in GROUPS:
        for rm in RM_LADDER[g]:
            for pa in P_AS:
                out.append({"part": "curves", "source": "chain", "group": g, "R_m": rm, "P_A": pa})
    for i in range(len(SYNTH_RAM)):
        out.append({"part": "curves", "source": "synthetic-RAM", "i": i})
    for i in range(len(SYNTH_RAJ)):
        out.append({"part": "curves", "source": "synthetic-RAJ", "i": i})
    return out


def _chain(case):
    import pandas as pd
    import pylife.strength.fkm_nonlinear.parameter_calculations as PC
    ap = pd.Series({"MatGroupFKM": case["group"], "R_m": case["R_m"], "P_A": case["P_A"], "A_ref": 500.0, "A_sigma": 339.4,
                    "G": 0.133, "K_RP": 0.9})
    with warnings.catch_warnings():
        warnings.simplefilter("ignore")
        import contextlib
        import io
        with contextlib.redirect_stdout(io.StringIO()):
            x = PC.calculate_material_woehler_parameters_P_RAM(ap)
            x = PC.calculate_material_woehler_parameters_P_RAJ(x)
            x = PC.calculate_nonlocal_parameters(x)
            x = PC.calculate_roughness_parameter(x)
            x = PC.calculate_failure_probability_factor_P_RAM(x)
            x = PC.calculate_failure_probability_factor_P_RAJ(x)
            x = PC.calculate_component_woehler_parameters_P_RAM(x)
            x = PC.calculate_component_woehler_parameters_P_RAJ(x)
    return x


def _rel(a, b):
    a, b = float(a), float(b)
    if math.isnan(a) or math.isnan(b):
        return INF
    if math.isinf(a) or math.isinf(b):
        return 0.0 if a == b else INF
    if a == b:
        return 0.0
    return abs(a - b) / max(abs(a), abs(b))


def _check_one_curve(kind, prm, calc_N, calc_P, rc, n_knees):
    """kind 'RAM'/'RAJ'; rc reference curve; n_knees: list of interior finite-life knees in N (1e3 for RAM)."""
    viol = []
    nev = 0
    K = "C09/curve-%s" % kind
    ND, PD, PZ = rc.N_D, rc.P_D, rc.P_Z
    if not (math.isfinite(ND) and ND > 1):
        return [(K + "/unusable-parameter-set", {"N_D": ND})], 0, ()

    def fN(p):
        return float(calc_N(p))

    def fP(n):
        return float(calc_P(n))

    # lattice in N (finite-life range is N < N_D)
    n_lat = {1.0, 10.0, 999.0, 1e3 * (1 - EPS), 1e3, 1e3 * (1 + EPS), 1001.0, ND * (1 - EPS), ND * 0.5, math.sqrt(1e3 * ND)}
    n_fin = sorted(n for n in n_lat if n < ND * (1 - EPS / 2))
    Pn = [fP(n) for n in n_fin]
    nev += len(n_fin)
    # inverse N -> P -> N
    for n, p in zip(n_fin, Pn):
        back = fN(p)
        nev += 1
        if _rel(back, n) > 1e-9:
            viol.append((K + "/inverse/N-of-P", {"N": n, "P": p, "N_back": back, "parameters": prm}))
            break
    # strictly decreasing
    if any(not (b < a) for a, b in zip(Pn[:-1], Pn[1:])):
        viol.append((K + "/not-strictly-decreasing", {"N": n_fin, "P": Pn, "parameters": prm}))
    # reference values
    for n, p in zip(n_fin, Pn):
        if _rel(p, rc.P(n)) > 1e-9:
            viol.append((K + "/reference/P-of-N", {"N": n, "got": p, "expected": rc.P(n), "parameters": prm}))
            break
    # continuity at interior knees and at the endurance knee
    for nk in n_knees:
        if nk < ND * (1 - 2 * EPS):
            a, b, c = fP(nk * (1 - EPS)), fP(nk), fP(nk * (1 + EPS))
            nev += 3
            if _rel(a, b) > 1e-7 or _rel(c, b) > 1e-7:
                viol.append((K + "/discontinuous-at-N=%g" % nk, {"left": a, "at": b, "right": c, "parameters": prm}))
    a, p_at_nd, c, p_at_10nd = fP(ND * (1 - EPS)), fP(ND), fP(ND * (1 + EPS)), fP(ND * 10)
    nev += 4
    if _rel(a, PD) > 1e-7 or _rel(p_at_nd, PD) > 1e-12 or _rel(c, PD) > 1e-12 or _rel(p_at_10nd, PD) > 1e-12:
        viol.append((K + "/discontinuous-at-endurance-knee", {"P(N_D(1-e))": a, "P(N_D)": p_at_nd, "P(N_D(1+e))": c,
                                                              "P(10 N_D)": p_at_10nd, "P_D": PD, "parameters": prm}))
    # lattice in P (finite life is P > P_D)
    p_lat = {PD * (1 + EPS), math.sqrt(PD * PZ), PZ * (1 - EPS), PZ, PZ * (1 + EPS), 2 * PZ, 10 * PZ}
    p_fin = sorted(p for p in p_lat if p > PD * (1 + EPS / 2))
    Np = [fN(p) for p in p_fin]
    nev += len(p_fin)
    if any(not math.isfinite(n) for n in Np) or any(not (b < a) for a, b in zip(Np[:-1], Np[1:])):
        viol.append((K + "/not-strictly-decreasing", {"P": p_fin, "N": Np, "parameters": prm}))
    for p, n in zip(p_fin, Np):
        if _rel(n, rc.N(p)) > 1e-9:
            viol.append((K + "/reference/N-of-P", {"P": p, "got": n, "expected": rc.N(p), "parameters": prm}))
            break
        if n < ND * (1 - EPS / 2):                  # the cycles-to-parameter function is the plateau P_D from N_D on
            back = fP(n)
            nev += 1
            if _rel(back, p) > 1e-9:
                viol.append((K + "/inverse/P-of-N", {"P": p, "N": n, "P_back": back, "parameters": prm}))
                break
    if kind == "RAM":
        a, b, c = fN(PZ * (1 - EPS)), fN(PZ), fN(PZ * (1 + EPS))
        nev += 3
        if PZ * (1 - EPS) > PD and (_rel(a, 1e3) > 1e-7 * abs(1 / rc.d_2) + 1e-9 or _rel(b, 1e3) > 1e-12
                                    or _rel(c, 1e3) > 1e-7 * abs(1 / rc.d_1) + 1e-9):
            viol.append((K + "/discontinuous-at-P_Z", {"left": a, "at": b, "right": c, "parameters": prm}))
    # infinite at and below the endurance value, continuous from above
    below = [fN(PD), fN(PD * (1 - EPS)), fN(0.5 * PD), fN(0.0)]
    nev += 4
    if not all(math.isinf(v) and v > 0 for v in below):
        viol.append((K + "/not-infinite-at-or-below-endurance", {"N(P_D), N(P_D(1-e)), N(P_D/2), N(0)": below, "parameters": prm}))
    above = fN(PD * (1 + EPS))
    nev += 1
    slope = abs(1 / (rc.d_2 if kind == "RAM" else rc.d))
    if _rel(above, ND) > 1e-9 * slope * 2 + 1e-9:
        viol.append((K + "/discontinuous-at-endurance-knee", {"N(P_D(1+e))": above, "N_D": ND, "parameters": prm}))
    # array evaluation = scalar evaluation
    # ... on float64 arrays the CALLER keeps (a grid that is used again for the next curve): asked twice, the arrays are
    # what they were and the second answer is the first
    grid_p, grid_n = np.array(p_fin + [PD, 0.5 * PD], dtype=np.float64), np.array(n_fin + [ND, 10 * ND], dtype=np.float64)
    keep_p, keep_n = grid_p.copy(), grid_n.copy()
    arrN = np.asarray(calc_N(grid_p), dtype=float)
    arrP = np.asarray(calc_P(grid_n), dtype=float)
    arrN2 = np.asarray(calc_N(grid_p), dtype=float)
    arrP2 = np.asarray(calc_P(grid_n), dtype=float)
    nev += 4
    if not (np.array_equal(grid_p, keep_p) and np.array_equal(grid_n, keep_n)):
        viol.append((K + "/callers-argument-array-changed", {"P_grid_before": keep_p.tolist(), "P_grid_after": grid_p.tolist(),
                                                             "N_grid_before": keep_n.tolist(), "N_grid_after": grid_n.tolist(), "parameters": prm}))
    elif not (np.array_equal(arrN, arrN2) and np.array_equal(arrP, arrP2)):
        viol.append((K + "/same-array-asked-twice-answers-differ", {"calc_N": [arrN.tolist(), arrN2.tolist()], "calc_P": [arrP.tolist(), arrP2.tolist()]}))
    if arrN.shape != (len(p_fin) + 2,) or any(_rel(x, y) > 1e-13 for x, y in zip(arrN, Np + [INF, INF])):
        viol.append((K + "/array-vs-scalar", {"what": "calc_N", "array": arrN.tolist(), "scalar": Np + [INF, INF]}))
    if arrP.shape != (len(n_fin) + 2,) or any(_rel(x, y) > 1e-13 for x, y in zip(arrP, Pn + [p_at_nd, p_at_10nd])):
        viol.append((K + "/array-vs-scalar", {"what": "calc_P", "array": arrP.tolist(), "scalar": Pn + [p_at_nd, p_at_10nd]}))
    if kind == "RAJ":
        # the optional argument of calc_N (an endurance value for this one question) must not stick to the curve object
        calc_N(np.array(p_fin), P_RAJ_D=2.0 * PD)
        again = np.asarray(calc_N(np.array(p_fin + [PD, 0.5 * PD])), dtype=float)
        nev += 2
        if again.shape != arrN.shape or not np.array_equal(again, arrN):
            viol.append((K + "/calc_N-changed-after-a-question-with-an-explicit-endurance-value",
                         {"before": arrN.tolist(), "after": again.tolist(), "explicit_P_RAJ_D": 2.0 * PD, "parameters": prm}))
    outcome = tuple(round(math.log(v), 7) for v in Pn) + tuple(round(math.log(v), 7) for v in Np if math.isfinite(v) and v > 0)
    return viol, nev, outcome


def check_curves(case):
    import pandas as pd
    import pylife.strength.woehler_fkm_nonlinear  # noqa: F401
    viol, nev, outcome = [], 0, ()
    try:
        if case["source"] == "chain":
            x = _chain(case)
            ram = {k: float(x[k]) for k in ("P_RAM_Z", "P_RAM_D", "d_1", "d_2")}
            raj = {k: float(x[k]) for k in ("P_RAJ_Z", "P_RAJ_D_0", "d_RAJ")}
            nev += 8
        elif case["source"] == "synthetic-RAM":
            ram, raj = SYNTH_RAM[case["i"]], None
        else:
            ram, raj = None, SYNTH_RAJ[case["i"]]
        if ram is not None:
            w = pd.Series(ram).woehler_P_RAM
            rc = ref.PRAMCurve(ram["P_RAM_Z"], ram["P_RAM_D"], ram["d_1"], ram["d_2"])
            if _rel(float(w.fatigue_life_limit), rc.N_D) > 1e-12 or float(w.fatigue_strength_limit) != rc.P_D:
                viol.append(("C09/curve-RAM/limits", {"fatigue_life_limit": float(w.fatigue_life_limit), "N_D": rc.N_D}))
            v, n, o = _check_one_curve("RAM", ram, w.calc_N, w.calc_P_RAM, rc, [1e3])
            viol += v
            nev += n
            outcome += o
        if raj is not None:
            w = pd.Series(raj).woehler_P_RAJ
            rc = ref.PRAJCurve(raj["P_RAJ_Z"], raj["P_RAJ_D_0"], raj["d_RAJ"])
            if _rel(float(w.fatigue_life_limit), rc.N_D) > 1e-12 or float(w.fatigue_strength_limit) != rc.P_D:
                viol.append(("C09/curve-RAJ/limits", {"fatigue_life_limit": float(w.fatigue_life_limit), "N_D": rc.N_D}))
            v, n, o = _check_one_curve("RAJ", raj, w.calc_N, w.calc_P_RAJ, rc, [1e3])
            viol += v
            nev += n
            outcome += o
        # history on ONE vectorised curve object (one parameter set per assessment point): evaluate, derive the minimum
        # lifetime curve from it (as done for plotting after a mesh assessment), evaluate again - must be unchanged
        if ram is not None:
            fz = np.array([1.0, 1.125, 1.25])
            vec = pd.Series({"P_RAM_Z": pd.Series(ram["P_RAM_Z"] * fz), "P_RAM_D": pd.Series(ram["P_RAM_D"] * fz),
                             "d_1": ram["d_1"], "d_2": ram["d_2"]}).woehler_P_RAM
            viol += _kept_vector_curve("RAM", vec, vec.calc_N, vec.calc_P_RAM, ram["P_RAM_D"] * 1.1, 5e4)
            nev += 5
        if raj is not None:
            fz = np.array([1.0, 1.125, 1.25])
            vec = pd.Series({"P_RAJ_Z": pd.Series(raj["P_RAJ_Z"] * fz), "P_RAJ_D_0": pd.Series(raj["P_RAJ_D_0"] * fz),
                             "d_RAJ": raj["d_RAJ"]}).woehler_P_RAJ
            viol += _kept_vector_curve("RAJ", vec, vec.calc_N, vec.calc_P_RAJ, raj["P_RAJ_D_0"] * 1.1, 5e4)
            nev += 5
    except Exception as e:
        viol.append(_raised(e, "curves"))
    return viol, nev, outcome


def _kept_vector_curve(kind, vec, calc_N, calc_P, P_probe, N_probe):
    before = (np.asarray(calc_N(np.full(3, P_probe)), dtype=float), np.asarray(calc_P(np.full(3, N_probe)), dtype=float))
    vec.get_woehler_curve_minimum_lifetime()
    after = (np.asarray(calc_N(np.full(3, P_probe)), dtype=float), np.asarray(calc_P(np.full(3, N_probe)), dtype=float))
    if not all(np.array_equal(a, b, equal_nan=True) for a, b in zip(before, after)):
        return [("C09/curve-%s/vectorised-curve-changed-by-get_woehler_curve_minimum_lifetime" % kind,
                 {"calc_N_before": before[0].tolist(), "calc_N_after": after[0].tolist(),
                  "calc_P_before": before[1].tolist(), "calc_P_after": after[1].tolist()})]
    return []


def _raised(e, part):
    import traceback
    tb = traceback.extract_tb(e.__traceback__)
    where = [f for f in tb if "/pylife/" in f.filename]
    if not where:
        raise e
    return ("C09/%s/raises-%s" % (part, type(e).__name__),
            {"error": str(e)[:300], "where": "%s:%s" % (where[-1].filename.split("/pylife/")[-1], where[-1].name)})


# =====================================================================================================
# P_RAM damage parameter
# =====================================================================================================
S_A = (0.0, 50.0, 200.0)
S_M = (-300.0, -50.0, -1e-9, 0.0, 1e-9, 50.0, 300.0)
EPS_A = (0.0, 1e-4, 2e-3)
E_MODULI = {"Steel": (206e3,), "SteelCast": (206e3,), "Al_wrought": (70e3,)}


def _pram_cases(tier):
    out = []
    for g in GROUPS:
        for rm in RM_LADDER[g]:
            for E in E_MODULI[g]:
                out.append({"part": "pram", "group": g, "R_m": rm, "E": E})
    return out


def check_pram(case):
    import pandas as pd
    import pylife.strength.damage_parameter as DP
    g, rm, E = case["group"], case["R_m"], case["E"]
    rows = list(itertools.product(S_A, S_M, EPS_A))
    viol, nev = [], 0
    stats = {"negative_product": 0, "rows": len(rows)}
    ap = pd.Series({"MatGroupFKM": g, "R_m": rm, "E": E})
    try:
        with warnings.catch_warnings():
            warnings.simplefilter("ignore")
            col = pd.DataFrame(rows, columns=["S_a", "S_m", "epsilon_a"])
            before = col.copy()
            got = DP.P_RAM(col, ap).collective["P_RAM"].to_numpy(dtype=float)
            nev += 1
            single = []
            for r in rows:
                c1 = pd.DataFrame([r], columns=["S_a", "S_m", "epsilon_a"])
                single.append(float(DP.P_RAM(c1, ap).collective["P_RAM"].iloc[0]))
                nev += 1
        for i, (sa, sm, ea) in enumerate(rows):
            exp = ref.p_ram(g, rm, E, sa, sm, ea)
            if (sa + ref.k_mean_stress(g, rm, sm) * sm) * ea * E < 0:
                stats["negative_product"] += 1
                key = "C09/P_RAM/not-zero-for-negative-product"
            else:
                key = "C09/P_RAM/value-S_m-%s" % ("negative" if sm < 0 else "non-negative")
            for label, val in (("table", got[i]), ("single-row", single[i])):
                if not (abs(val - exp) <= 1e-12 * max(1.0, abs(exp))):
                    viol.append((key, {"row(S_a,S_m,eps_a)": [sa, sm, ea], "got": val, "expected": exp, "evaluated_as": label}))
                    break
        if not col.equals(before):
            viol.append(("C09/P_RAM/input-collective-altered", {}))
    except Exception as e:
        viol.append(_raised(e, "P_RAM"))
        got = []
    return viol, nev, tuple(round(float(v), 6) for v in got), stats


# =====================================================================================================
# accumulation
# =====================================================================================================
CURVE_A = {"P_RAM_Z": 432.9, "P_RAM_D": 149.4, "d_1": -0.302, "d_2": -0.197}          # steel-like component curve
CURVE_X = {"P_RAM_Z": 1.0, "P_RAM_D": 1.0 / 64, "d_1": -1.0, "d_2": -0.5}              # 1/d integer: N rational in P
# levels of curve A: below endurance, just above, mid, above P_Z; (thorough adds) zero, N ~ 1.6, N < 1
LEVELS_A_Q = (120.0, 150.0, 300.0, 700.0)
LEVELS_A_T = (0.0, 120.0, 150.0, 300.0, 700.0, 3000.0)
# levels of curve X -> N = inf, 4000, 4, 2, 1, 0.5: damages are binary fractions (or 1/4000): exact ties at one
LEVELS_X_Q = (0.0, 0.5, 250.0, 500.0, 1000.0, 2000.0)
LEVELS_X_T = (0.0, 1.0 / 128, 0.5, 250.0, 500.0, 1000.0, 2000.0)


def _families(tier):
    """(family name, curve, levels, [(n1 values, n2 values)])"""
    if tier == "quick":
        return [("A", CURVE_A, LEVELS_A_Q, [((0, 1, 2), (1, 2)), ((0, 1), (3,))]),
                ("X", CURVE_X, LEVELS_X_Q, [((0, 1), (1, 2)), ((2,), (1,))])]
    return [("A", CURVE_A, LEVELS_A_T, [((0, 1, 2), (1, 2)), ((0, 1), (3,))]),
            ("X", CURVE_X, LEVELS_X_T, [((0, 1, 2), (1, 2)), ((0,), (3,))])]


def _batch_families(tier):
    if tier == "quick":
        return [("A", CURVE_A, LEVELS_A_Q, [((0, 1), (1, 2))]), ("X", CURVE_X, LEVELS_X_Q, [((0, 1), (1,))])]
    # the vectorised path is ~25 x cheaper per table: it carries the full n1 <= 2, n2 <= 3 space of family A
    return [("A", CURVE_A, LEVELS_A_T, [((0, 1, 2), (1, 2, 3))]), ("X", CURVE_X, LEVELS_X_T, [((0, 1, 2), (1, 2)), ((0, 1), (3,))])]


def _tables(levels, n1, n2):
    types = list(itertools.product(range(len(levels)), (1, 0)))       # (level index, closed)
    for r1 in itertools.product(types, repeat=n1):
        for r2 in itertools.product(types, repeat=n2):
            yield r1, r2


def _acc_shards(tier):
    out = []
    for fam, curve, levels, shapes in _families(tier):
        for n1s, n2s in shapes:
            for n1 in n1s:
                for n2 in n2s:
                    tabs = list(_tables(levels, n1, n2))
                    for block in chunked(tabs, 600):
                        out.append(("acc", tier, fam, block))
    for fam, curve, levels, shapes in _batch_families(tier):
        for n1s, n2s in shapes:
            for n1 in n1s:
                for n2 in n2s:
                    tabs = list(_tables(levels, n1, n2))
                    # batches of 25 assessment points, consecutive tables (differ in the last rows) ...
                    batches = chunked(tabs, 25)
                    # ... and strided batches (differ everywhere)
                    stride = max(1, len(tabs) // 25)
                    batches += [tabs[i::stride][:25] for i in range(min(stride, 40))] if stride > 1 else []
                    for block in chunked(batches, 40):
                        out.append(("accbatch", tier, fam, block))
    return out


def _fam(tier, fam):
    for f in _families(tier) + _batch_families(tier):
        if f[0] == fam:
            levels = f[2]
            return f[1], levels
    raise KeyError(fam)


def _n_of(fam, curve):
    if fam == "X":
        return ref.exact_N_dyadic(Fraction(curve["P_RAM_Z"]), int(round(1 / curve["d_1"])), int(round(1 / curve["d_2"])))
    rc = ref.PRAMCurve(curve["P_RAM_Z"], curve["P_RAM_D"], curve["d_1"], curve["d_2"])
    return rc.N_power_law


def _expected(fam, curve, rows1, rows2):
    if fam == "X":
        rows1 = [(Fraction(p), c) for p, c in rows1]
        rows2 = [(Fraction(p), c) for p, c in rows2]
        return ref.literal_lifetime(rows1, rows2, _n_of(fam, curve), zero=Fraction(0), one=Fraction(1))
    return ref.literal_lifetime(rows1, rows2, _n_of(fam, curve))


def _classify(info, rows1, rows2, n_of):
    d1 = any(n_of(p) != INF for p, _ in rows1)
    half = any((not c) and n_of(p) != INF for p, c in list(rows1) + list(rows2))
    if info["early"]:
        return "early-failure"
    if info["reps"] == INF:
        return "no-damage-in-second-pass"
    if half:
        return "half-hysteresis"
    return "repetition-with-first-pass-damage" if d1 else "repetition-only"


def _run_calculator(curve, tables, interleave=False):
    """tables: list of (rows1, rows2) with identical shapes -> arrays n_times, n_cycles (one entry per table)"""
    import pandas as pd
    import pylife.strength.woehler_fkm_nonlinear  # noqa: F401
    import pylife.strength.fkm_nonlinear.damage_calculator as DC
    w = pd.Series(curve).woehler_P_RAM
    if len(tables) == 1:
        rows1, rows2 = tables[0]
        rows = list(rows1) + list(rows2)
        col = pd.DataFrame({"P_RAM": [float(r[0]) for r in rows], "is_closed_hysteresis": [bool(r[1]) for r in rows],
                            "run_index": [1] * len(rows1) + [2] * len(rows2), "S_min": 0.0})
    else:
        n1, n2 = len(tables[0][0]), len(tables[0][1])
        recs = []
        # assessment point labels 0..n-1, but NOT in sorted first-appearance order (a mesh lists its nodes as it likes);
        # the unlabelled result arrays are ordered by sorted label, so table k is found at position label[k]
        npt = len(tables)
        label = [npt - 2 - k for k in range(npt - 1)] + [npt - 1]
        for h in range(n1 + n2):
            for a, (rows1, rows2) in enumerate(tables):
                r = (list(rows1) + list(rows2))[h]
                recs.append((h, label[a], float(r[0]), bool(r[1]), 1 if h < n1 else 2, 0.0))
        col = pd.DataFrame(recs, columns=["hysteresis_index", "assessment_point_index", "P_RAM", "is_closed_hysteresis",
                                          "run_index", "S_min"]).set_index(["hysteresis_index", "assessment_point_index"])
    with warnings.catch_warnings():
        warnings.simplefilter("ignore")
        with np.errstate(all="ignore"):
            dc = DC.DamageCalculatorPRAM(col, w)
            nt = np.atleast_1d(np.asarray(dc.lifetime_n_times_load_sequence, dtype=float))
            nc = np.atleast_1d(np.asarray(dc.lifetime_n_cycles, dtype=float))
            if interleave:
                # two more calculators on the SAME table object: the first is only constructed, then one with a weaker
                # curve is constructed and asked, then the first is asked - it must answer for its own curve
                before = (list(col.columns), list(col.index.names), col.to_numpy(dtype=float).tolist())
                first = DC.DamageCalculatorPRAM(col, w)
                weaker = dict(curve)
                weaker["P_RAM_Z"], weaker["P_RAM_D"] = 0.8 * curve["P_RAM_Z"], 0.8 * curve["P_RAM_D"]
                other = DC.DamageCalculatorPRAM(col, pd.Series(weaker).woehler_P_RAM)
                np.asarray(other.lifetime_n_times_load_sequence, dtype=float)
                np.asarray(other.lifetime_n_cycles, dtype=float)
                nt2 = np.atleast_1d(np.asarray(first.lifetime_n_times_load_sequence, dtype=float))
                nc2 = np.atleast_1d(np.asarray(first.lifetime_n_cycles, dtype=float))
                after = (list(col.columns), list(col.index.names), col.to_numpy(dtype=float).tolist())
                extra = {"same": bool(np.array_equal(nt, nt2, equal_nan=True) and np.array_equal(nc, nc2, equal_nan=True)),
                         "alone": [nt.tolist(), nc.tolist()], "interleaved": [nt2.tolist(), nc2.tolist()],
                         "table_untouched": before == after}
    if len(tables) > 1 and nt.shape == (len(tables),) and nc.shape == (len(tables),):
        nt, nc = nt[label], nc[label]
    if interleave:
        return nt, nc, extra
    return nt, nc


def _rows(levels, idx_rows):
    return [(levels[i], bool(c)) for i, c in idx_rows]


def check_table(tier, fam, r1, r2, batch=None):
    """one table (or, with batch = list of (r1, r2), one collective with several assessment points)"""
    curve, levels = _fam(tier, fam)
    tabs = [(r1, r2)] if batch is None else batch
    rtol = 1e-12 if fam == "X" else 1e-9
    part = "accumulation" if batch is None else "accumulation-batch"
    viol, classes, outcomes = [], [], []
    try:
        nt, nc, extra = _run_calculator(curve, [(_rows(levels, a), _rows(levels, b)) for a, b in tabs], interleave=True)
    except Exception as e:
        return [_raised(e, part)], [], []
    if not extra["same"]:
        viol.append(("C09/%s/calculator-answers-for-another-curve-after-a-second-calculator-on-the-same-table" % part,
                     {"pass1": [list(x) for x in tabs[0][0]], "pass2": [list(x) for x in tabs[0][1]], "alone(n_times, n_cycles)": extra["alone"],
                      "after_other_calculator": extra["interleaved"]}))
    if nt.shape != (len(tabs),) or nc.shape != (len(tabs),):
        return [("C09/%s/result-shape" % part, {"n_times": nt.tolist(), "n_cycles": nc.tolist(), "points": len(tabs)})], [], []
    n_of = _n_of(fam, curve)
    for k, (a, b) in enumerate(tabs):
        rows1, rows2 = _rows(levels, a), _rows(levels, b)
        e_nt, e_nc, info = _expected(fam, curve, rows1, rows2)
        cls = _classify(info, rows1, rows2, n_of)
        classes.append(cls)
        outcomes.append((round(e_nt, 9) if math.isfinite(e_nt) else 9e99, e_nc if math.isfinite(e_nc) else 9e99))
        if fam != "X" and info["margin"] < 1e-9:
            classes[-1] = "tie-within-1e-9-not-judged"
            continue
        bad_t, bad_c = _rel(nt[k], e_nt) > rtol, _rel(nc[k], e_nc) > rtol
        if bad_t or bad_c:
            what = "n_times" if bad_t else "n_cycles"
            viol.append(("C09/%s/%s/%s" % (part, cls, what),
                         {"pass1(P_RAM, closed)": rows1, "pass2(P_RAM, closed)": rows2, "got(n_times, n_cycles)": [float(nt[k]), float(nc[k])],
                          "literal_loop(n_times, n_cycles)": [e_nt, e_nc], "point_in_batch": k if batch is not None else None}))
    return viol, classes, outcomes


# =====================================================================================================
# beta, gamma_L
# =====================================================================================================
def _beta_lattice(tier):
    n = 120 if tier == "quick" else 300
    lo, hi = math.log10(1e-12), math.log10(0.5)
    pts = [10 ** (lo + (hi - lo) * i / (n - 1)) for i in range(n)]
    pts[-1] = 0.5
    return pts + sorted(ref.BETA_TABLE) + [0.025, 0.1, 0.49, 0.4999999]


def check_beta(P):
    import pylife.strength.fkm_nonlinear.parameter_calculations as PC
    try:
        with warnings.catch_warnings():
            warnings.simplefilter("ignore")
            got = float(PC.compute_beta(P))
    except Exception as e:
        return [_raised(e, "beta")], None
    exp = ref.beta(P)
    if not (abs(got - exp) <= 1e-8):
        return [("C09/beta/not-negative-normal-quantile", {"P_A": P, "got": got, "expected": exp})], got
    return [], got


LOAD_SEQS = {"series-pos": [100.0, 150.0, 200.0], "series-neg-dominant": [100.0, -250.0, 30.0], "series-unit": [1.0, -0.5],
             "frame-nodes": None}
S_LS = (0.0, 1.0, 10.0, 50.0)
LSD_SS = (0.0, 0.01, 0.05, 0.2)
P_LS = (2.5, 50)


def _gamma_cases(tier):
    out = []
    for pa in sorted(ref.BETA_TABLE):
        for pl in P_LS:
            for seq in LOAD_SEQS:
                for s in S_LS:
                    out.append({"part": "gamma", "dist": "normal", "P_A": pa, "P_L": pl, "s": s, "seq": seq})
            for s in LSD_SS:
                out.append({"part": "gamma", "dist": "lognormal", "P_A": pa, "P_L": pl, "s": s, "seq": "series-pos"})
    for pl in P_LS:
        out.append({"part": "gamma", "dist": "blanket", "P_A": 1e-5, "P_L": pl, "s": 0.0, "seq": "series-pos"})
    return out


def _load_obj(name):
    import pandas as pd
    if name == "frame-nodes":
        idx = pd.MultiIndex.from_product([range(3), range(2)], names=["load_step", "node_id"])
        return pd.DataFrame({"S_v": [10.0, -20.0, -40.0, 25.0, 30.0, 5.0]}, index=idx), 40.0
    vals = LOAD_SEQS[name]
    return pd.Series(vals, name="load"), max(abs(v) for v in vals)


def check_gamma(case):
    import pandas as pd
    import pylife.strength.fkm_load_distribution  # noqa: F401
    obj, lmax = _load_obj(case["seq"])
    pa, pl, s = case["P_A"], case["P_L"], case["s"]
    try:
        if case["dist"] == "normal":
            got = obj.fkm_safety_normal_from_stddev.gamma_L(pd.Series({"P_A": pa, "P_L": pl, "s_L": s}))
            exp = ref.gamma_L_normal(pa, pl, s, lmax)
        elif case["dist"] == "lognormal":
            got = obj.fkm_safety_lognormal_from_stddev.gamma_L(pd.Series({"P_A": pa, "P_L": pl, "LSD_s": s}))
            exp = ref.gamma_L_lognormal(pa, pl, s)
        else:
            got = obj.fkm_safety_blanket.gamma_L(pd.Series({"P_L": pl}))
            exp = ref.gamma_L_blanket(pl)
        got = float(got)
    except Exception as e:
        return [_raised(e, "gamma_L-" + case["dist"])], None, None
    branch = "P_L=2.5" if pl == 2.5 else "P_L=50"
    if not (abs(got - exp) <= 1e-12 * max(1.0, abs(exp))):
        return [("C09/gamma_L/%s/%s" % (case["dist"], branch), {"case": case, "got": got, "expected": exp})], got, exp
    return [], got, exp


def check_gamma_kept(case):
    """One kept parameter Series (and one kept load object) asked again and again while P_A, P_L and the scatter are
    changed in it in place - every answer must be the formula value for the parameters it holds at that moment.
    case: {part: 'gamma-kept', dist, seq}; the sweep is the case (history dependent by construction)."""
    import pandas as pd
    import pylife.strength.fkm_load_distribution  # noqa: F401
    obj, lmax = _load_obj(case["seq"])
    dist = case["dist"]
    skey = "s_L" if dist == "normal" else "LSD_s"
    sweep = [(pa, pl, s_) for s_ in (S_LS if dist == "normal" else LSD_SS) for pl in P_LS for pa in sorted(ref.BETA_TABLE)]
    params = pd.Series({"P_A": sweep[0][0], "P_L": sweep[0][1], skey: sweep[0][2]})
    viol, n = [], 0
    for step, (pa, pl, s_) in enumerate(sweep):
        try:
            params["P_A"], params["P_L"], params[skey] = pa, pl, s_
            acc_ = obj.fkm_safety_normal_from_stddev if dist == "normal" else obj.fkm_safety_lognormal_from_stddev
            got = float(acc_.gamma_L(params))
            # ... and a copy of the used parameters with another scatter value (what a parameter study does)
            other = params.copy()
            other[skey] = 0.5 * s_ + 0.01
            got_other = float(acc_.gamma_L(other))
        except Exception as e:
            viol.append(_raised(e, "gamma_L-kept-parameters-" + dist))
            break
        n += 2
        exp = ref.gamma_L_normal(pa, pl, s_, lmax) if dist == "normal" else ref.gamma_L_lognormal(pa, pl, s_)
        exp_other = ref.gamma_L_normal(pa, pl, 0.5 * s_ + 0.01, lmax) if dist == "normal" else ref.gamma_L_lognormal(pa, pl, 0.5 * s_ + 0.01)
        for g, e_, what in ((got, exp, "kept"), (got_other, exp_other, "copy")):
            if not (abs(g - e_) <= 1e-12 * max(1.0, abs(e_))):
                viol.append(("C09/gamma_L/%s/kept-parameter-series-changed-in-place" % dist,
                             {"step": step, "asked_with": what, "P_A": pa, "P_L": pl, skey: s_ if what == "kept" else 0.5 * s_ + 0.01,
                              "got": g, "expected": e_}))
                break
        if viol:
            break
    return viol, n


# kept ACCESSOR object: every sequence of questions up to depth 3 on one accessor obtained once from the caller's load
# object, with the caller changing a load value in place in between.  Every answer is the formula value for the loads
# the object holds at that moment.
GH_OPS = ("max-uniform", "max-per-node", "gamma_L", "scaled-peak", "caller:raise-the-peak-in-place", "caller:lower-the-peak-in-place")
GH_DEPTH = 3


def check_gamma_history(case):
    """case: {part: 'gamma-history', dist, seq (load object), ops (indices into GH_OPS)}"""
    import pandas as pd
    import pylife.strength.fkm_load_distribution  # noqa: F401
    obj, _ = _load_obj(case["seq"])
    obj = obj.astype(float)
    dist = case["dist"]
    pa, pl = 1e-5, 2.5
    params = pd.Series({"P_A": pa, "P_L": pl, "s_L": 10.0, "LSD_s": 0.05})
    acc_ = getattr(obj, {"normal": "fkm_safety_normal_from_stddev", "lognormal": "fkm_safety_lognormal_from_stddev", "blanket": "fkm_safety_blanket"}[dist])
    frame = isinstance(obj, pd.DataFrame)

    def content():
        v = obj.iloc[:, 0] if frame else obj
        per_node = v.abs().groupby("node_id", sort=False).max() if frame else None
        return float(v.abs().max()), per_node

    def gamma_exp(lmax):
        return ref.gamma_L_normal(pa, pl, 10.0, lmax) if dist == "normal" else (ref.gamma_L_lognormal(pa, pl, 0.05) if dist == "lognormal" else ref.gamma_L_blanket(pl))
    n = 0
    for step, oi in enumerate(case["ops"]):
        op = GH_OPS[oi]
        lmax, per_node = content()
        try:
            if op.startswith("caller"):
                pos = int(np.argmax(np.abs((obj.iloc[:, 0] if frame else obj).to_numpy())))
                factor = 2.0 if "raise" in op else 0.25
                if frame:
                    obj.iloc[pos, 0] = obj.iloc[pos, 0] * factor
                else:
                    obj.iloc[pos] = obj.iloc[pos] * factor
                continue
            n += 1
            if op == "max-uniform":
                got, exp = float(acc_.maximum_absolute_load()), lmax
                bad = got != exp
            elif op == "max-per-node":
                r = acc_.maximum_absolute_load(max_load_independently_for_nodes=True)
                if frame:
                    got, exp = np.asarray(r, dtype=float).reshape(-1).tolist(), per_node.to_numpy(dtype=float).tolist()
                else:
                    got, exp = float(r), lmax
                bad = got != exp
            elif op == "gamma_L":
                got, exp = float(acc_.gamma_L(params)), gamma_exp(lmax)
                bad = not abs(got - exp) <= 1e-12 * max(1.0, abs(exp))
            else:
                r = acc_.scaled_load_sequence(params)
                got = float(np.abs((r.iloc[:, 0] if isinstance(r, pd.DataFrame) else r).to_numpy(dtype=float)).max())
                exp = gamma_exp(lmax) * lmax
                bad = not abs(got - exp) <= 1e-12 * max(1.0, abs(exp))
        except Exception as e:
            return [_raised(e, "gamma_L-kept-accessor-" + dist)], n
        if bad:
            return [("C09/gamma_L/%s/kept-accessor-object/%s-not-for-the-loads-it-holds-now" % (dist, op),
                     {"step": step, "ops": [GH_OPS[i] for i in case["ops"]], "got": got, "expected": exp, "maximum_absolute_load_now": lmax})], n
    return [], n


def _gamma_history_cases():
    out = []
    for dist in ("normal", "lognormal", "blanket"):
        for seq in ("series-pos", "frame-nodes"):
            for d in range(1, GH_DEPTH + 1):
                for ops in itertools.product(range(len(GH_OPS)), repeat=d):
                    if GH_OPS[ops[-1]].startswith("caller"):
                        continue
                    out.append({"part": "gamma-history", "dist": dist, "seq": seq, "ops": list(ops)})
    return out


# =====================================================================================================
def bounds(tier):
    fams = {}
    for fam, curve, levels, shapes in _families(tier):
        fams[fam] = {"curve": curve, "P_RAM levels": levels, "x": "closed/half", "(first-pass rows, second-pass rows)": shapes}
    bf = {}
    for fam, curve, levels, shapes in _batch_families(tier):
        bf[fam] = {"P_RAM levels": levels, "(first-pass rows, second-pass rows)": shapes, "points per collective": 25}
    return {"curves": {"chain": {"groups": GROUPS, "R_m": RM_LADDER, "P_A": P_AS}, "synthetic_P_RAM": SYNTH_RAM, "synthetic_P_RAJ": SYNTH_RAJ,
                       "relative step at knees": EPS},
            "P_RAM": {"S_a": S_A, "S_m": S_M, "epsilon_a": EPS_A, "groups x R_m": RM_LADDER, "E": E_MODULI},
            "accumulation": fams, "accumulation_batch": bf,
            "beta": {"P_A": "%d log-spaced in [1e-12, 0.5] + tabulated + 4 extra" % (120 if tier == "quick" else 300)},
            "gamma_L": {"P_A": sorted(ref.BETA_TABLE), "P_L": P_LS, "s_L": S_LS, "LSD_s": LSD_SS, "load objects": list(LOAD_SEQS),
                        "kept parameter Series": "the whole P_A x P_L x scatter sweep on ONE parameter Series changed in place (normal, log-normal; Series and mesh frame)"},
            "accumulation, interleaved": "every table again with two more calculators on the same table object (own curve, weaker curve) - first constructed, second asked, first asked"}


def shards(tier):
    out = [("curves", _curve_cases(tier)), ("pram", _pram_cases(tier))]
    out += [("beta", block) for block in chunked(_beta_lattice(tier), 60)]
    out += [("gamma", _gamma_cases(tier))]
    out += [("gamma-kept", [{"part": "gamma-kept", "dist": d, "seq": q} for d in ("normal", "lognormal") for q in ("series-pos", "frame-nodes")])]
    gh = _gamma_history_cases()
    out += [("gamma-history", gh[i:i + 120]) for i in range(0, len(gh), 120)]
    out += _acc_shards(tier)
    return out


def run_shard(shard):
    prepare(None)
    acc = Acc()
    kind = shard[0]
    if kind == "curves":
        acc.sample({"part": "curves", "first_case": shard[1][0], "lattice": "N in {1, 10, 999, 1e3(1-+1e-9), 1e3, 1001, N_D/2, sqrt(1e3 N_D), N_D(1-1e-9)}"})
        for case in shard[1]:
            acc.cases += 1
            acc.nontrivial += 1
            acc.count("curve_parameter_sets")
            viol, nev, outcome = check_curves(case)
            acc.evaluations += nev
            acc.outcomes.add(hash(outcome))
            for key, detail in viol:
                acc.violation(key, case, detail)
    elif kind == "pram":
        for case in shard[1]:
            viol, nev, outcome, stats = check_pram(case)
            acc.cases += stats["rows"]
            acc.nontrivial += stats["negative_product"]
            acc.count("P_RAM_rows", stats["rows"])
            acc.count("P_RAM_rows_with_negative_product", stats["negative_product"])
            acc.evaluations += nev
            acc.outcomes.add(hash(outcome))
            for key, detail in viol:
                acc.violation(key, case, detail)
    elif kind == "beta":
        for P in shard[1]:
            acc.cases += 1
            acc.evaluations += 1
            acc.count("beta_points")
            viol, got = check_beta(P)
            if P < 1e-6 or P > 0.4:
                acc.nontrivial += 1
            acc.outcome(got)
            for key, detail in viol:
                acc.violation(key, {"part": "beta", "P_A": P}, detail)
    elif kind == "gamma":
        for case in shard[1]:
            acc.cases += 1
            acc.evaluations += 1
            acc.count("gamma_L_cases")
            viol, got, exp = check_gamma(case)
            if case["dist"] == "lognormal" and exp == 1.0 and case["s"] > 0:
                acc.nontrivial += 1
                acc.count("gamma_L_lognormal_clamp_active")
            if case["dist"] == "normal" and exp is not None and exp < 1.0:
                acc.count("gamma_L_normal_below_one (formula has no clamp; value judged against the formula only)")
            acc.outcome(got)
            for key, detail in viol:
                acc.violation(key, case, detail)
    elif kind == "gamma-history":
        for case in shard[1]:
            acc.cases += 1
            if any(GH_OPS[i].startswith("caller") for i in case["ops"]):
                acc.nontrivial += 1
            viol, n = check_gamma_history(case)
            acc.evaluations += n
            acc.transitions += len(case["ops"])
            acc.max_depth = max(acc.max_depth, len(case["ops"]))
            acc.count("gamma_L_kept_accessor_histories")
            for key, detail in viol:
                acc.violation(key, case, detail)
    elif kind == "gamma-kept":
        for case in shard[1]:
            acc.cases += 1
            acc.nontrivial += 1
            viol, n = check_gamma_kept(case)
            acc.evaluations += n
            acc.count("gamma_L_kept_parameter_sweeps")
            for key, detail in viol:
                acc.violation(key, case, detail)
    elif kind == "acc":
        _, tier, fam, block = shard
        for r1, r2 in block:
            acc.cases += 1
            acc.evaluations += 2
            viol, classes, outcomes = check_table(tier, fam, r1, r2)
            for c in classes:
                acc.count("acc_class/" + c)
                if c in ("early-failure", "half-hysteresis", "repetition-with-first-pass-damage"):
                    acc.nontrivial += 1
            for o in outcomes:
                acc.outcomes.add(hash(o))
            if len(acc.samples) < 1 and len(r1) >= 1 and any(not c for _, c in list(r1) + list(r2)):
                curve, levels = _fam(tier, fam)
                rows1, rows2 = _rows(levels, r1), _rows(levels, r2)
                e_nt, e_nc, info = _expected(fam, curve, rows1, rows2)
                if not info["early"] and math.isfinite(e_nt):     # sample is built from the input and the reference only
                    acc.sample({"family": fam, "pass1(P_RAM, closed)": rows1, "pass2(P_RAM, closed)": rows2,
                                "literal_loop(n_times, n_cycles)": [e_nt, e_nc]})
            for key, detail in viol:
                acc.violation(key, {"part": "acc", "tier": tier, "family": fam, "r1": r1, "r2": r2}, detail)
    elif kind == "accbatch":
        _, tier, fam, block = shard
        for batch in block:
            acc.cases += 1
            acc.evaluations += 2
            acc.count("acc_batch_collectives")
            acc.count("acc_batch_points", len(batch))
            viol, classes, outcomes = check_table(tier, fam, None, None, batch=batch)
            if len(set(classes)) > 1:
                acc.nontrivial += 1
            acc.outcomes.add(hash(tuple(outcomes)))
            for key, detail in viol:
                acc.violation(key, {"part": "accbatch", "tier": tier, "family": fam, "batch": batch}, detail)
    return acc


def _tup(rows):
    return tuple((int(i), int(c)) for i, c in rows)


def replay(case):
    part = case["part"]
    if part == "curves":
        return check_curves(case)[0]
    if part == "pram":
        return check_pram(case)[0]
    if part == "beta":
        return check_beta(case["P_A"])[0]
    if part == "gamma":
        return check_gamma(case)[0]
    if part == "gamma-history":
        return check_gamma_history(case)[0]
    if part == "gamma-kept":
        return check_gamma_kept(case)[0]
    if part == "acc":
        return check_table(case["tier"], case["family"], _tup(case["r1"]), _tup(case["r2"]))[0]
    if part == "accbatch":
        return check_table(case["tier"], case["family"], None, None, batch=[(_tup(a), _tup(b)) for a, b in case["batch"]])[0]
    raise ValueError(part)
