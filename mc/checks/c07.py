"""C07 - the binned notch law is the wrapped law sampled at the upper class edge.

For every configuration (wrapped law, parameter set, maximum load, number of bins) the real `Binned` object is
built and looked up at every load of a finite load list that hits every class edge exactly, one float below and
above it, +-1e-9 L_max beside it, inside every class, zero, both signs, the range limit and beyond it - by scalar
calls, by one Series call against the single table, and by per-point Series against per-point tables.

Oracle (decomposition of the property):
  (T1) table edges      : stored class edges are k * (L_max / bins), k = 1..bins (2 bins for ranges), top edge = L_max
  (T2) table content    : stress column == wrapped law evaluated on the same edge grid in one vectorised call
                          (bitwise: same deterministic call), and within solver tolerance of the exact root of the
                          law's equation (mc/refs/notch.py); strain column == Ramberg-Osgood strain of the stress
  (T3) per-point tables : rows of point i == rows of the table built for point i alone
  (L)  look-up          : value == sign(L) * table row of the smallest class whose stored edge >= |L|  (exact ==)
  (G)  guard            : |L| > L_max (2 L_max for ranges) raises, every load of the quantified range returns
  (S)  consequences     : never below the exact law in magnitude, monotone, within one class of the exact law
"Exactly on a class edge" means the float stored in the table; the floats next to it are enumerated as well.
"""
import math
import warnings

import numpy as np

from mc.explore import Acc
from mc.refs import notch as ref

ID = "C07"
LEVEL = "exploration"
RULE = ("all configurations law x parameter set x L_max x bins; per configuration the load list {every stored class "
        "edge, the floats directly below/above it, edge +- 1e-9 L_max, (k+0.3) w for every class k, 0, L_max, "
        "next float above L_max, L_max (1+1e-12), 1.5 L_max} x both signs x both branches (ranges up to 2 L_max) "
        "x call styles (python float, np.float64, Series against the single table, per-point Series against "
        "per-point tables of 1-4 points with distinct and with tied maxima and three sign patterns); one case per (configuration, "
        "branch, style, load); non-trivial = load within 1e-9 L_max of a class edge, or zero, or at/over the range limit")
ASSUMPTIONS = [
    "the class edge of the property is the float stored in the table's load column; (T1) checks these are "
    "k * L_max / bins to 4 ulp; loads one float below/above each stored edge are part of the list",
    "the wrapped law itself is C06's subject; here the table is compared bitwise with the same vectorised call and "
    "within 10 (tol + rtol |x|), tol = rtol = 1e-4 (the defaults Binned uses) with the exact root",
    "per-point tables are compared with single-point tables within 2 tol (the vectorised solver iterates all "
    "entries until the last one converged, so values depend on the batch within the step tolerance)",
    "per-point look-ups use loads proportional to the per-point maxima (all points in the same class), the FKM "
    "nonlinear use case; non-proportional per-point loads are outside the check",
    "number_of_bins = 1 fails at construction (no table, no look-up): counted, not judged",
    "the quantified load range is (-max, max]: L = -max (-2 max) is executed and counted, not judged",
    "above the maximum any exception type counts as 'raises an error' (types are counted); inside the range any "
    "exception is a violation",
]
C = 10.0
DEFAULT_TOL = 1e-4

PARAMS = [("guideline-example-1", 206000.0, 1184.0, 0.187, 3.5), ("Al_wrought/300", 70000.0, 624.0583486028388, 0.128, 2.0)]
LAWS = ("ExtendedNeuber", "SeegerBeste")
# per-point maxima as multiples of L_max (first is not the largest); the last two menus have TIES (points sharing their
# maximum, as neighbouring nodes of a mesh do), one of them with the distinct values not ascending along the points
MAXIMA_MENU = [[1.0], [1.0, 0.6], [1.0, 1.7, 0.45], [0.6, 0.6], [1.0, 1.7, 0.45, 1.7]]
NODE_IDS = [11, 5, 8, 2]
SIGN_PATTERNS = {"+": (1, 1, 1, 1), "-": (-1, -1, -1, -1), "+-": (1, -1, 1, -1)}
TIERS = {
    "quick": {"L_max": (100.0, 250.0, 333.3), "bins": (2, 3, 7, 10, 100), "perpoint_bins": (2, 3, 7, 10)},
    "thorough": {"L_max": (100.0, 250.0, 333.3, 1000.0), "bins": (2, 3, 5, 7, 10, 13, 50, 64, 100),
                 "perpoint_bins": (2, 3, 5, 7, 10, 13, 50, 64, 100)},
}


def bounds(tier):
    t = TIERS[tier]
    return {"laws": LAWS, "parameter_sets(name,E,K',n',K_p)": PARAMS, "L_max": t["L_max"], "bins": t["bins"] + (1,),
            "per_point_bins": t["perpoint_bins"], "per_point_maxima(xL_max)": MAXIMA_MENU, "node_ids": NODE_IDS,
            "sign_patterns": list(SIGN_PATTERNS), "branches": ["primary", "secondary"],
            "styles": ["float", "np.float64", "Series/single-table", "Series/per-point"]}


def shards(tier):
    t = TIERS[tier]
    out = []
    for law in LAWS:
        for prm in PARAMS:
            for lmax in t["L_max"]:
                for nb in (1,) + t["bins"]:
                    out.append({"law": law, "prm": list(prm), "L_max": lmax, "bins": nb,
                                "perpoint": nb in t["perpoint_bins"]})
                    if nb in (3, 10) and lmax == t["L_max"][0]:
                        for via in ("set-Kp", "set-K"):
                            out.append({"law": law, "prm": list(prm), "L_max": lmax, "bins": nb, "perpoint": False, "via": via})
                        for via in ("deepcopy", "pickle"):
                            out.append({"law": law, "prm": list(prm), "L_max": lmax, "bins": nb, "perpoint": nb == 3, "via": via})
    out.sort(key=lambda s: s["bins"])
    return out


# ------------------------------------------------------------------------------------------------- helpers
def _law(cfg):
    if cfg["law"] == "ExtendedNeuber":
        from pylife.materiallaws.notch_approximation_law import ExtendedNeuber as cls
    else:
        from pylife.materiallaws.notch_approximation_law_seegerbeste import SeegerBeste as cls
    _, E, K, n, Kp = cfg["prm"]
    return cls(E, K, n, Kp)


def _binned(cfg, maximum):
    """via None: fresh law object.  via 'set-Kp' / 'set-K': the law object was constructed with another K_p / K', was
    binned once with the SAME maximum and bin count (anything memoised per (maximum, bins) is filled), then the parameter
    was assigned through the public setter and the law is binned again - the tables must be those of the current law."""
    from pylife.materiallaws.notch_approximation_law import Binned
    with warnings.catch_warnings():
        warnings.simplefilter("ignore")
        via = cfg.get("via")
        if not via:
            return Binned(_law(cfg), maximum, cfg["bins"])
        if via in ("deepcopy", "pickle"):
            # the object looked at is a copy of the one that was initialised (a detector holding it is deep-copied by
            # the assessment itself; objects sent to worker processes are pickled)
            import copy
            import pickle
            b = Binned(_law(cfg), maximum, cfg["bins"])
            return copy.deepcopy(b) if via == "deepcopy" else pickle.loads(pickle.dumps(b))
        _, E, K, n, Kp = cfg["prm"]
        law = _law(dict(cfg, prm=[cfg["prm"][0], E, K, n, Kp + 1.5] if via == "set-Kp" else [cfg["prm"][0], E, 1.7 * K, n, Kp]))
        Binned(law, maximum, cfg["bins"])
        if via == "set-Kp":
            law.K_p = Kp
        else:
            law.K = K
        return Binned(law, maximum, cfg["bins"])


def _sfx(cfg):
    via = cfg.get("via")
    return "" if not via else "/copy-of-the-object" if via in ("deepcopy", "pickle") else "/after-setters"


def _maxima_series(cfg, mult):
    import pandas as pd
    return pd.Series([m * cfg["L_max"] for m in mult], index=pd.Index(NODE_IDS[:len(mult)], name="node_id"))


BR = {
    "primary": ("_lut_primary_branch", "load", "stress", "strain", "stress", "strain", 1),
    "secondary": ("_lut_secondary_branch", "delta_load", "delta_stress", "delta_strain",
                  "stress_secondary_branch", "strain_secondary_branch", 2),
}


def _columns(binned, branch, node=None):
    """(edges, stresses, strains) of the table as float lists (of one node for per-point tables)."""
    lut_name, cl, cs, ce = BR[branch][:4]
    lut = getattr(binned, lut_name)
    if node is not None:
        lut = lut[lut.index.get_level_values("node_id") == node]
    return lut[cl].to_numpy(dtype=float).tolist(), lut[cs].to_numpy(dtype=float).tolist(), lut[ce].to_numpy(dtype=float).tolist()


def _expected(edges, vals, L):
    """sign(L) * vals[k], k = smallest class with edge >= |L|; None if |L| is above the last edge."""
    a = abs(L)
    for e, v in zip(edges, vals):
        if e >= a:
            return ((L > 0) - (L < 0)) * v
    return None


def _load_list(cfg, branch, edges):
    """Non-negative magnitudes of the load list, sorted, unique; plus the out-of-range magnitudes."""
    lmax = cfg["L_max"]
    top = BR[branch][6] * lmax
    w = lmax / cfg["bins"]
    mags = {0.0}
    for k, e in enumerate([0.0] + edges):
        for x in (e, math.nextafter(e, -math.inf), math.nextafter(e, math.inf), e - 1e-9 * lmax, e + 1e-9 * lmax, (k + 0.3) * w):
            if 0.0 <= x <= top:
                mags.add(x)
    mags.add(top)
    over = [math.nextafter(top, math.inf), top * (1 + 1e-12), top + 1e-9 * lmax, 1.5 * top]
    return sorted(mags), over


def _near_edge(cfg, edges, x):
    a = abs(x)
    return a == 0.0 or any(abs(a - e) <= 1e-9 * cfg["L_max"] * 1.0000001 for e in edges)


def _call(fn, *args):
    """-> ('ok', value) | ('raised', exc)"""
    with warnings.catch_warnings():
        warnings.simplefilter("ignore")
        try:
            return "ok", fn(*args)
        except Exception as e:      # noqa: BLE001 - the guard is expected to raise; judged by the caller
            return "raised", e


def _vals(v, n):
    """Flatten a look-up result to a list of n floats, or None."""
    a = np.asarray(v, dtype=float).reshape(-1)
    return a.tolist() if a.size == n else None


def _a(x):
    return C * (DEFAULT_TOL + DEFAULT_TOL * abs(x))


# ------------------------------------------------------------------------------------------------- probes
def probe_table(cfg, acc):
    """(T1) (T2) for the single table, (T3) for the per-point tables."""
    import pandas as pd
    out = []
    law = _law(cfg)
    b = _binned(cfg, cfg["L_max"])
    acc.evaluations += 1
    _, E, K, n, Kp = cfg["prm"]
    for branch in ("primary", "secondary"):
        edges, st, en = _columns(b, branch)
        nb = BR[branch][6] * cfg["bins"]
        w = cfg["L_max"] / cfg["bins"]
        if len(edges) != nb or any(abs(e - (k + 1) * w) > 4 * math.ulp(e) for k, e in enumerate(edges)) or edges[-1] != BR[branch][6] * cfg["L_max"]:
            out.append(("C07/" + cfg["law"] + "/%s/table/class-edges" % branch, {"edges": edges[:5], "expected_width": w, "classes": len(edges), "expected_classes": nb}))
            continue
        fmeth = BR[branch][4]
        with warnings.catch_warnings():
            warnings.simplefilter("ignore")
            same = np.asarray(getattr(law, fmeth)(pd.Series(np.array(edges))), dtype=float).tolist()
        acc.evaluations += 1
        if same != st:
            k = next(i for i in range(nb) if same[i] != st[i])
            out.append(("C07/" + cfg["law"] + "/%s/table/stress-not-the-law-on-the-edge-grid" % branch, {"class": k + 1, "edge": edges[k], "table": st[k], "law": same[k]}))
        for k in range(nb):
            r = ref.stress(cfg["law"], E, K, n, Kp, edges[k], branch == "secondary")
            if not abs(st[k] - r) <= _a(r):
                out.append(("C07/" + cfg["law"] + "/%s/table/stress-not-the-root-at-the-edge" % branch, {"class": k + 1, "edge": edges[k], "table": st[k], "exact_root": r}))
                break
        for k in range(nb):
            eps = (ref.ro_delta_strain if branch == "secondary" else ref.ro_strain)(E, K, n, st[k])
            if not abs(en[k] - eps) <= 1e-12 * abs(eps):
                out.append(("C07/" + cfg["law"] + "/%s/table/strain-not-ramberg-osgood" % branch, {"class": k + 1, "stress": st[k], "table": en[k], "expected": eps}))
                break
    if cfg["perpoint"]:
        for mult in MAXIMA_MENU:
            mx = _maxima_series(cfg, mult)
            mine = mx.copy()
            bm = _binned(cfg, mine)
            # the caller recycles its Series of maxima for the next load case (in place) before the tables are first used:
            # the tables are those of the maxima the object was initialised with
            mine.iloc[:] = 0.5 * mine.to_numpy()
            acc.evaluations += 1
            for node, m in zip(NODE_IDS, mult):
                alone = _binned(cfg, m * cfg["L_max"])
                acc.evaluations += 1
                for branch in ("primary", "secondary"):
                    e1, s1, n1 = _columns(bm, branch, node)
                    e0, s0, n0 = _columns(alone, branch)
                    if e1 != e0:
                        out.append(("C07/" + cfg["law"] + "/%s/per-point-table/edges-differ-from-single-point-table" % branch, {"maxima": mult, "node": node, "multi": e1[:4], "alone": e0[:4]}))
                    elif any(abs(x - y) > 2 * DEFAULT_TOL + 1e-9 * abs(y) for x, y in zip(s1, s0)):
                        k = next(i for i in range(len(s0)) if abs(s1[i] - s0[i]) > 2 * DEFAULT_TOL + 1e-9 * abs(s0[i]))
                        out.append(("C07/" + cfg["law"] + "/%s/per-point-table/stress-differs-from-single-point-table" % branch, {"maxima": mult, "node": node, "class": k + 1, "multi": s1[k], "alone": s0[k]}))
                    elif any(abs(x - y) > 1e-12 * abs(y) + abs((ref.ro_compliance(E, K, n, (0.5 if branch == "secondary" else 1.0) * sy)) * 2 * DEFAULT_TOL) for x, y, sy in zip(n1, n0, s0)):
                        out.append(("C07/" + cfg["law"] + "/%s/per-point-table/strain-differs-from-single-point-table" % branch, {"maxima": mult, "node": node}))
    return out


def _judge_value(cfg, branch, what, L, got, exp, style):
    """what = 'stress' | 'strain'; exp None means out of range (a value was returned although the guard must raise)."""
    cls = "series" if style.startswith("Series") else "scalar"
    if exp is None:
        return [("C07/%s/%s/%s/no-error-above-maximum" % (branch, what, cls), {"load": L, "style": style, "got": got})]
    if not (got == exp):
        return [("C07/%s/%s/%s/not-the-upper-edge-value" % (branch, what, cls), {"load": L, "style": style, "got": got, "expected": exp})]
    return []


def _in_quantified_range(L, top):
    return -top < L <= top


def probe_scalar(cfg, b, tab, branch, style, L, acc):
    edges, st, en = tab[branch]
    top = BR[branch][6] * cfg["L_max"]
    fmeth, smeth = BR[branch][4], BR[branch][5]
    arg = float(L) if style == "float" else np.float64(L)
    out = []
    s_st, s = _call(getattr(b, fmeth), arg)
    acc.evaluations += 1
    exp_s, exp_e = _expected(edges, st, L), _expected(edges, en, L)
    if s_st == "raised":
        if abs(L) > top:
            acc.count("guard-raised/%s" % type(s).__name__)
        elif not _in_quantified_range(L, top):
            acc.count("raised at L = -max (outside the quantified range (-max, max]; not judged)")
        else:
            out.append(("C07/%s/stress/scalar/raises-%s-in-range" % (branch, type(s).__name__), {"load": L, "style": style, "message": str(s)[:200]}))
        s_for_strain = exp_s if exp_s is not None else 0.0
    else:
        got = _vals(s, 1)
        if got is None:
            out.append(("C07/%s/stress/wrong-shape" % branch, {"load": L, "style": style}))
        elif not _in_quantified_range(L, top) and abs(L) <= top:
            acc.count("returned at L = -max (outside the quantified range; not judged)")
        else:
            out += _judge_value(cfg, branch, "stress", L, got[0], exp_s, style)
        s_for_strain = s
    e_st, e = _call(getattr(b, smeth), s_for_strain, arg)
    acc.evaluations += 1
    if e_st == "raised":
        if abs(L) > top:
            acc.count("guard-raised/%s" % type(e).__name__)
        elif _in_quantified_range(L, top):
            out.append(("C07/%s/strain/scalar/raises-%s-in-range" % (branch, type(e).__name__), {"load": L, "style": style, "message": str(e)[:200]}))
    else:
        got = _vals(e, 1)
        if got is None:
            out.append(("C07/%s/strain/wrong-shape" % branch, {"load": L, "style": style}))
        elif _in_quantified_range(L, top) or abs(L) > top:
            out += _judge_value(cfg, branch, "strain", L, got[0], exp_e, style)
    return out, (s if s_st == "ok" else None)


def probe_series(cfg, b, tab, branch, loads, acc):
    """One Series of loads against the single table: all in range -> element-wise values; any above -> raises."""
    import pandas as pd
    edges, st, en = tab[branch]
    top = BR[branch][6] * cfg["L_max"]
    fmeth, smeth = BR[branch][4], BR[branch][5]
    ser = pd.Series(np.array(loads, dtype=float))
    out = []
    must_raise = any(abs(x) > top for x in loads)
    for what, meth, vals in (("stress", fmeth, st), ("strain", smeth, en)):
        if what == "stress":
            status, v = _call(getattr(b, meth), ser)
        else:
            status, v = _call(getattr(b, meth), ser * 0.0, ser)
        acc.evaluations += 1
        if status == "raised":
            if must_raise:
                acc.count("guard-raised/%s" % type(v).__name__)
            else:
                out.append(("C07/%s/%s/series/raises-%s-in-range" % (branch, what, type(v).__name__), {"loads": loads[:6], "style": "Series/single-table", "message": str(v)[:200]}))
            continue
        got = _vals(v, len(loads))
        if must_raise:
            out.append(("C07/%s/%s/series/no-error-above-maximum" % (branch, what), {"loads": [x for x in loads if abs(x) > top][:3], "style": "Series/single-table"}))
            continue
        if got is None:
            out.append(("C07/%s/%s/wrong-shape" % (branch, what), {"style": "Series/single-table", "n": len(loads)}))
            continue
        for L, g in zip(loads, got):
            if not _in_quantified_range(L, top):
                continue
            bad = _judge_value(cfg, branch, what, L, g, _expected(edges, vals, L), "Series/single-table")
            if bad:
                out += bad
                break
    return out


def probe_perpoint(cfg, bm, mtab, mult, branch, pattern, frac, acc, held=None):
    """Per-point Series: point i gets sign_i * frac-th load of its own list; all points are in the same class.
    held: dict what -> (result object of the preceding look-up, its expected values): a result that was handed out must
    still hold its values after the next look-up of the same quantity."""
    import pandas as pd
    fmeth, smeth = BR[branch][4], BR[branch][5]
    nodes = NODE_IDS[:len(mult)]
    signs = SIGN_PATTERNS[pattern][:len(mult)]
    kind, k = frac
    loads = []
    for node, m, sg in zip(nodes, mult, signs):
        edges = mtab[branch][node][0]
        top = BR[branch][6] * m * cfg["L_max"]
        e = edges[k - 1] if k >= 1 else 0.0
        w = m * cfg["L_max"] / cfg["bins"]
        x = {"edge": e, "below": math.nextafter(e, -math.inf), "above": math.nextafter(e, math.inf),
             "inside": (k + 0.3) * w, "over": 1.5 * top, "zero": 0.0}[kind]
        loads.append(sg * max(x, 0.0))
    ser = pd.Series(loads, index=pd.Index(nodes, name="node_id"))
    out = []
    for what, meth, col in (("stress", fmeth, 1), ("strain", smeth, 2)):
        exp = [_expected(mtab[branch][node][0], mtab[branch][node][col], L) for node, L in zip(nodes, loads)]
        if what == "stress":
            status, v = _call(getattr(bm, meth), ser)
        else:
            status, v = _call(getattr(bm, meth), ser * 0.0, ser)
        acc.evaluations += 1
        over = any(x is None for x in exp)
        case = {"maxima": mult, "signs": pattern, "loads": loads, "style": "Series/per-point"}
        if status == "raised":
            if over:
                acc.count("guard-raised/%s" % type(v).__name__)
            else:
                out.append(("C07/%s/%s/per-point/raises-%s-in-range" % (branch, what, type(v).__name__), dict(case, message=str(v)[:200])))
            continue
        if over:
            out.append(("C07/%s/%s/per-point/no-error-above-maximum" % (branch, what), case))
            continue
        got = _vals(v, len(loads))
        if got is None:
            out.append(("C07/%s/%s/per-point/wrong-shape" % (branch, what), case))
        elif got != exp:
            out.append(("C07/%s/%s/per-point/not-the-upper-edge-value" % (branch, what), dict(case, got=got, expected=exp)))
        elif held is not None:
            if what in held:
                old_v, old_exp = held[what]
                now = _vals(old_v, len(old_exp))
                if now != old_exp:
                    out.append(("C07/%s/%s/per-point/result-handed-out-earlier-changed-by-the-next-look-up" % (branch, what),
                                dict(case, earlier_result_now=now, earlier_result_was=old_exp)))
            held[what] = (v, exp)
    return out, loads


def probe_shape(cfg, b, tab, branch, acc):
    """(S) consequences on the sorted in-range list, from scalar look-ups and the exact law."""
    edges, st, en = tab[branch]
    _, E, K, n, Kp = cfg["prm"]
    sec = branch == "secondary"
    fmeth = BR[branch][4]
    mags, _ = _load_list(cfg, branch, edges)
    xs = sorted(set([-m for m in mags if m < mags[-1]] + mags))
    out, prev = [], None
    exact_edge = [0.0] + [ref.stress(cfg["law"], E, K, n, Kp, e, sec) for e in edges]
    for L in xs:
        status, v = _call(getattr(b, fmeth), float(L))
        acc.evaluations += 1
        if status != "ok":
            prev = None
            continue
        v = float(np.asarray(v, dtype=float).reshape(-1)[0])
        ex = ref.stress(cfg["law"], E, K, n, Kp, L, sec)
        k = next((i for i, e in enumerate(edges) if e >= abs(L)), None)
        # the binned value is a solver result at the class edge: its accuracy is that of the root at the edge
        tol = _a(exact_edge[k + 1] if k is not None else ex)
        if abs(v) < abs(ex) - tol:
            out.append(("C07/%s/stress/under-estimates-the-exact-law" % branch, {"load": L, "binned": v, "exact": ex}))
            break
        if k is not None and abs(v - ex) > (exact_edge[k + 1] - exact_edge[k]) + 2 * tol:
            out.append(("C07/%s/stress/deviates-more-than-one-class" % branch, {"load": L, "binned": v, "exact": ex, "class_span": exact_edge[k + 1] - exact_edge[k]}))
            break
        if prev is not None and v < prev[1]:
            out.append(("C07/%s/stress/not-monotone" % branch, {"loads": [prev[0], L], "binned": [prev[1], v]}))
            break
        prev = (L, v)
    return out


# ------------------------------------------------------------------------------------------------- driver
def _tables(cfg, b):
    return {br: _columns(b, br) for br in ("primary", "secondary")}


def _mtables(cfg, bm, mult):
    return {br: {node: _columns(bm, br, node) for node in NODE_IDS[:len(mult)]} for br in ("primary", "secondary")}


def _fracs(cfg, branch):
    nb = BR[branch][6] * cfg["bins"]
    out = [("zero", 0)]
    for k in range(0, nb + 1):
        if k >= 1:
            out += [("edge", k), ("below", k), ("above", k)]
        if k < nb:
            out.append(("inside", k))
    out.append(("over", nb))
    return out


def run_shard(cfg):
    acc = Acc()
    if cfg["bins"] == 1:
        status, v = _call(_binned, cfg, cfg["L_max"])
        acc.cases += 1
        acc.evaluations += 1
        acc.count("number_of_bins=1: construction %s (no table; not judged)" % ("raised " + type(v).__name__ if status == "raised" else "succeeded"))
        acc.outcomes.add(hash(("bins1", status)))
        return acc

    def report(viol, probe):
        for key, detail in viol:
            acc.violation(key + _sfx(cfg), {"cfg": cfg, "probe": probe}, detail)

    report(probe_table(cfg, acc), {"p": "table"})
    acc.cases += 1
    b = _binned(cfg, cfg["L_max"])
    tab = _tables(cfg, b)
    for branch in ("primary", "secondary"):
        edges = tab[branch][0]
        mags, over = _load_list(cfg, branch, edges)
        signed = sorted(set([-m for m in mags] + mags + [-o for o in over] + over))
        for style in ("float", "np.float64"):
            prev = None       # all look-ups go to ONE Binned object, in ascending order: the recorded case carries the
            for L in signed:  # preceding look-up, so that a result that depends on the look-up history can be replayed
                acc.cases += 1
                if _near_edge(cfg, edges, L) or abs(L) >= edges[-1]:
                    acc.nontrivial += 1
                viol, s = probe_scalar(cfg, b, tab, branch, style, L, acc)
                report(viol, {"p": "scalar", "branch": branch, "style": style, "L": L, "previous_lookup": prev})
                prev = L
            # ... and in descending order (a load in class k+1 is then followed by the edge of class k)
            for L in reversed([x for x in signed if abs(x) <= edges[-1]]):
                viol, s = probe_scalar(cfg, b, tab, branch, style, L, acc)
                report(viol, {"p": "scalar", "branch": branch, "style": style, "L": L, "previous_lookup": prev})
                prev = L
                acc.cases += 1
                acc.outcomes.add(hash((branch, None if s is None else round(float(np.asarray(s).reshape(-1)[0]), 9))))
        inrange = [x for x in signed if abs(x) <= edges[-1]]
        acc.cases += len(inrange)
        acc.nontrivial += sum(1 for x in inrange if _near_edge(cfg, edges, x))
        report(probe_series(cfg, b, tab, branch, inrange, acc), {"p": "series", "branch": branch, "loads": inrange})
        for o in over:
            for sg in (1.0, -1.0):
                mixed = [inrange[len(inrange) // 3], sg * o, inrange[-2]]
                acc.cases += 1
                acc.nontrivial += 1
                report(probe_series(cfg, b, tab, branch, mixed, acc), {"p": "series", "branch": branch, "loads": mixed})
        report(probe_shape(cfg, b, tab, branch, acc), {"p": "shape", "branch": branch})
        acc.cases += 1
    if not acc.samples and cfg["bins"] == 7:
        L = tab["primary"][0][2]
        acc.sample({"cfg": cfg, "load_on_edge_3": L, "binned_stress": float(b.stress(L)), "table_stress_class_3": tab["primary"][1][2],
                    "binned_stress_next_float_above": float(b.stress(math.nextafter(L, math.inf))), "table_stress_class_4": tab["primary"][1][3]})
    if cfg["perpoint"]:
        for mult in MAXIMA_MENU:
            bm = _binned(cfg, _maxima_series(cfg, mult))
            mtab = _mtables(cfg, bm, mult)
            for branch in ("primary", "secondary"):
                for pattern in SIGN_PATTERNS:
                    if len(mult) == 1 and pattern == "+-":
                        continue
                    held, prev = {}, None
                    for frac in _fracs(cfg, branch):
                        acc.cases += 1
                        if frac[0] != "inside":
                            acc.nontrivial += 1
                        viol, loads = probe_perpoint(cfg, bm, mtab, mult, branch, pattern, frac, acc, held)
                        report(viol, {"p": "perpoint", "branch": branch, "maxima": mult, "signs": pattern, "frac": list(frac),
                                      "previous_frac": prev})
                        prev = list(frac)
    return acc


def replay(case):
    sfx = _sfx(case["cfg"])
    return [(k + sfx, d) for k, d in _replay(case)]


def _replay(case):
    cfg, probe = case["cfg"], case["probe"]
    acc = Acc()
    if probe["p"] == "table":
        return probe_table(cfg, acc)
    if probe["p"] == "perpoint":
        mult = probe["maxima"]
        bm = _binned(cfg, _maxima_series(cfg, mult))
        mtab, held = _mtables(cfg, bm, mult), {}
        if probe.get("previous_frac") is not None:
            probe_perpoint(cfg, bm, mtab, mult, probe["branch"], probe["signs"], tuple(probe["previous_frac"]), acc, held)
        return probe_perpoint(cfg, bm, mtab, mult, probe["branch"], probe["signs"], tuple(probe["frac"]), acc, held)[0]
    b = _binned(cfg, cfg["L_max"])
    tab = _tables(cfg, b)
    if probe["p"] == "scalar":
        if probe.get("previous_lookup") is not None:
            probe_scalar(cfg, b, tab, probe["branch"], probe["style"], float(probe["previous_lookup"]), acc)
        return probe_scalar(cfg, b, tab, probe["branch"], probe["style"], float(probe["L"]), acc)[0]
    if probe["p"] == "series":
        return probe_series(cfg, b, tab, probe["branch"], [float(x) for x in probe["loads"]], acc)
    return probe_shape(cfg, b, tab, probe["branch"], acc)
