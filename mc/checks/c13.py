"""C13 - broadcasting aligns operands without altering data or inputs.

Part "align":   every pair (object, parameter) of small index layouts x object kind x parameter kind is handed to the real
                Broadcaster(obj).broadcast(prm); the two returned objects are compared row by row with a dict look-up
                reference (mc/refs/broadcast.py), and both operands are compared with deep snapshots taken before the call.
Part "woehler": the calculation built on it - per-element Woehler curves x per-scenario (per-element, per-both) loads:
                woehler.cycles(load) == pyLife's own scalar evaluation, element by element.
"""
import itertools
import math
import warnings

import numpy as np

from mc.explore import Acc, chunked, h64
from mc.refs import broadcast as ref

ID = "C13"
LEVEL = "exploration"
RULE = ("align: all pairs of index layouts (level-name tuples from the menu; per level a small key set of its own dtype; all "
        "indices with 1..R distinct rows in all row orders) x object kind {Series, DataFrame(2 cols)} x parameter kind "
        "{Series, DataFrame}, plus every object x {scalar, 0-d array, list, ndarray of length 1..3 and one mismatching length}; "
        "woehler: all element layouts x load layouts x failure probabilities; one case = one (object, parameter) pair = one "
        "call of the real code; non-trivial = pandas x pandas pair inside the property's quantifier whose two indices differ "
        "(names, keys or order), or a record/array broadcast with >= 2 rows; pairs outside the quantifier (partially overlapping "
        "level names with a shared-level key missing in one operand) are executed and counted, not judged")
ASSUMPTIONS = [
    "alignment depends only on which level names and keys coincide and on row order; 2 (3) keys per level, <= 3 rows "
    "and <= 2 levels per operand produce every coincidence pattern of that scope (a one-off run with <= 4 rows per "
    "two-level index, 341 160 cases, showed the same violation classes and no others)",
    "an unnamed level is a level of its own (never shared), as the pinned tests for named x unnamed indices show; a result "
    "that is correct only when the unnamed levels of both operands are read as one level is counted, not judged",
    "completeness is demanded as DESIGN.md states it: equal names -> union of keys, disjoint names -> cross product, "
    "containment/overlap -> every operand row whose shared-level key occurs in the other operand; rows of one operand "
    "whose shared key is missing in the other are not demanded",
    "a Series object is a record (one column per key in the result) when its index is a single unnamed level or the "
    "parameter is an array; for a named/multi-level Series x array the positional reading is accepted as well",
    "values are compared with == (no arithmetic happens), the Woehler results with rtol 1e-12 (vector vs scalar pow)",
]

# "f": the level name 'a' again, but with FLOAT keys of which one equals an integer key of "a" (10.0 == 10) and one is not
# integer-valued (12.5): ids / temperatures stored as int in one operand and as float in the other
KEYS_Q = {"f": (10.0, 12.5), "a": (10, 20), "b": ("x", "y"), "c": (1.5, 2.5), "n": (0, 1), "s": ("p", "q"), "z": (10, 20), "e": ("x", "y"), "m": ("x", None)}
KEYS_T = {"f": (10.0, 12.5), "a": (10, 20, 30), "b": ("x", "y"), "c": (1.5, 2.5), "n": (0, 1), "s": ("p", "q"), "z": (10, 20), "e": ("x", "y"), "m": ("x", None)}
# "m": a level of a MultiIndex in which one key is missing (None / NaN: an element without a variant label); pandas keeps
# such a key as code -1 outside .levels.  It is a key like any other: rows carrying it keep it and keep their values.
NAN_KEY = "<missing key>"
# "e": a level that HAS a name, but a falsy one ('' as from a csv header); it must be treated like any named level, not
# like an unnamed one.  ("z": integer names are NOT enumerated: pandas itself reads an integer `level=` as a level number,
# so name 1 raises IndexError and name 0 gives NaN in the cross join on the unchanged tree - a pandas ambiguity, observed,
# outside the claims.)
NAME = {"f": "a", "a": "a", "b": "b", "c": "c", "n": None, "s": None, "z": 0, "e": "", "m": "m"}
LAYOUTS = (("a",), ("b",), ("c",), ("n",), ("s",), ("a", "b"), ("b", "a"), ("a", "c"), ("a", "n"), ("e",), ("e", "a"), ("a", "m"), ("f",))


def bounds(tier):
    q = tier == "quick"
    return {"align": {"layouts(level alphabets; n,s = unnamed level with int / str keys)": LAYOUTS,
                      "keys_per_level": KEYS_Q if q else {"single-level layouts": KEYS_T, "two-level layouts": KEYS_Q},
                      "max_rows": {"single-level": "all", "two-level": 2 if q else 3},
                      "object_kinds": ["series", "frame"], "parameter_kinds": ["series", "frame", "scalar", "array0d", "list", "ndarray"]},
            "woehler": {"element_ids": [1, 2, 3], "scenario_ids": [0, 1, 2], "rows": "1..3 in all orders",
                        "load_layouts": ["scenario", "element", "(element, scenario)", "(scenario, element)", "unnamed"],
                        "curve_layouts": ["element", "(element, material)"], "failure_probability": [0.5, 0.1]}}


# ---------------------------------------------------------------------------------------------------------------------
# enumeration
def indices(layout, tier):
    keys = KEYS_Q if (tier == "quick" or len(layout) > 1) else KEYS_T
    prod = list(itertools.product(*[keys[lv] for lv in layout]))
    maxrows = len(prod) if len(layout) == 1 else (2 if tier == "quick" else 3)
    out = []
    for r in range(1, min(maxrows, len(prod)) + 1):
        for rows in itertools.permutations(prod, r):
            out.append({"names": [NAME[lv] for lv in layout], "rows": [list(k) for k in rows]})
    return out


def shards(tier):
    out = []
    pairs = sorted(itertools.product(LAYOUTS, LAYOUTS), key=lambda p: (len(p[0]) + len(p[1]), LAYOUTS.index(p[0]), LAYOUTS.index(p[1])))
    for lo in sorted(LAYOUTS, key=lambda l: (len(l), NAME[l[0]] is not None)):      # the documented record kind (unnamed) first
        out.append(("nonpandas", tier, lo))
    for lo, lp in pairs:
        n_obj = len(indices(lo, tier))
        size = max(1, 600 // max(1, len(indices(lp, tier))))
        for block in chunked(range(n_obj), size):
            out.append(("align", tier, lo, lp, block[0], block[-1] + 1))
    for curve_layout in ("e", "em"):
        for load_layout in ("s", "e", "es", "se", "n"):
            out.append(("woehler", tier, curve_layout, load_layout))
    return out


# ---------------------------------------------------------------------------------------------------------------------
# building operands / reading results (pandas is used only to build inputs and to read outputs)
def make(spec):
    import pandas as pd
    kind = spec["kind"]
    if kind in ("scalar", "array0d", "list", "ndarray"):
        if kind == "scalar":
            return float(spec["values"][0])
        if kind == "array0d":
            return np.asarray(float(spec["values"][0]))
        return list(spec["values"]) if kind == "list" else np.array(spec["values"], dtype=float)
    names, rows = spec["names"], [tuple(r) for r in spec["rows"]]
    if len(names) == 1:
        index = pd.Index([r[0] for r in rows], name=names[0])
    else:
        index = pd.MultiIndex.from_tuples(rows, names=names)
    base = spec.get("base", 1.0)
    n = len(rows)
    if kind == "series":
        return pd.Series([base * (i + 1) for i in range(n)], index=index, name=spec.get("name"))
    cols = spec.get("cols", ["u", "v"])
    return pd.DataFrame({c: [base * (i + 1) + 0.25 * j for i in range(n)] for j, c in enumerate(cols)}, index=index)


def table(x):
    """names / rows / cols / values of a pandas object as plain python."""
    import pandas as pd
    names = list(x.index.names)
    rows = [tuple(k) if isinstance(k, tuple) else (k,) for k in x.index.tolist()]
    rows = [tuple(NAN_KEY if (k is None or (isinstance(k, float) and math.isnan(k))) else k for k in r) for r in rows]
    if isinstance(x, pd.DataFrame):
        def canon(k):
            return NAN_KEY if (k is None or (isinstance(k, float) and math.isnan(k))) else k
        cols = [tuple(canon(k) for k in c) if isinstance(c, tuple) else canon(c) for c in x.columns.tolist()]
        values = np.asarray(x.to_numpy(), dtype=float).tolist()
    else:
        cols = ["<series>"]                    # the name of a Series is not part of the property
        values = [[v] for v in np.asarray(x.to_numpy(), dtype=float).tolist()]
    return {"names": names, "rows": rows, "cols": cols, "values": values}


def state(x):
    """Deep snapshot of an operand: container type, values + dtypes, index keys + their python types, level names."""
    import pandas as pd
    if not isinstance(x, (pd.Series, pd.DataFrame)):
        return ("plain", repr(type(x)), repr(x))
    t = table(x)
    types = [[type(k).__name__ for k in r] for r in t["rows"]]
    dtypes = [str(d) for d in (x.dtypes if isinstance(x, pd.DataFrame) else [x.dtype])]
    return {"type": type(x).__name__, "names": t["names"], "index": [list(r) for r in t["rows"]], "index_types": types,
            "cols": t["cols"], "values": t["values"], "dtypes": dtypes}


def _msg(e):
    import re
    return re.sub(r"[0-9a-f]{32}", "<32-hex-string>", str(e))[:200]


def _stable(st):
    """Snapshot with run-dependent level names (the Broadcaster's temporary uuid names) made printable and stable."""
    if not isinstance(st, dict):
        return st
    out = dict(st)
    out["names"] = ["<32-hex-string>" if isinstance(n, str) and len(n) == 32 and all(ch in "0123456789abcdef" for ch in n) else n
                    for n in st["names"]]
    return out


def _state_diff(before, after):
    if before == after:
        return None
    if not isinstance(before, dict):
        return "value"
    for field, label in (("names", "level-names"), ("index", "index"), ("index_types", "index"), ("values", "values"),
                         ("cols", "values"), ("dtypes", "values"), ("type", "values")):
        b, a = before[field], after[field]
        if field == "values":
            same = len(a) == len(b) and all(len(x) == len(y) and all(ref._same_value(p, q) for p, q in zip(x, y)) for x, y in zip(a, b))
        else:
            same = a == b
        if not same:
            return label
    return None


def _is_pandas_kind(spec):
    return spec["kind"] in ("series", "frame")


def layout_class(obj_spec, prm_spec, obj_t, prm_t):
    """Input class used in violation keys."""
    if not _is_pandas_kind(prm_spec):
        what = "scalar" if prm_spec["kind"] in ("scalar", "array0d") else "array"
        return "%s-x-%s" % (obj_spec["kind"], what)
    if obj_spec["kind"] == "series" and obj_spec["names"] == [None]:
        return "record-series-x-%s" % prm_spec["kind"]
    if ref.positions_coincide(obj_t, prm_t):
        return "names-differ-positions-coincide"
    return ref.relation(ref.level_ids(obj_t["names"], "obj"), ref.level_ids(prm_t["names"], "prm"))


def check_pair(obj_spec, prm_spec):
    """Execute one broadcast on the real code and judge it.  Returns (violations [(key, detail)], info)."""
    import pandas as pd
    from pylife.core.broadcaster import Broadcaster
    obj, prm = make(obj_spec), make(prm_spec)
    if prm_spec.get("share_index"):
        # both operands sit on the SAME pandas Index object (pd.Series(values, index=frame.index))
        prm = (pd.Series(prm.to_numpy(), index=obj.index, name=prm.name) if isinstance(prm, pd.Series)
               else pd.DataFrame(prm.to_numpy(), index=obj.index, columns=prm.columns))
    obj_t = table(obj)
    pandas_prm = _is_pandas_kind(prm_spec)
    prm_t = table(prm) if pandas_prm else None
    cls = layout_class(obj_spec, prm_spec, obj_t, prm_t)
    scope = ref.in_scope(obj_t, prm_t) if pandas_prm and not cls.startswith("record") else True
    mismatch = False
    if not pandas_prm and prm_spec["kind"] in ("list", "ndarray") and obj_spec["kind"] == "frame":
        mismatch = len(prm_spec["values"]) not in (1, len(obj_spec["rows"]))      # property silent: documented ValueError
    info = {"class": cls, "in_scope": scope and not mismatch, "raised": None, "outcome": None}
    before = (state(obj), state(prm))
    with warnings.catch_warnings():
        warnings.simplefilter("ignore")
        try:
            kept = Broadcaster(obj)
            rp, ro = kept.broadcast(prm)
        except Exception as e:                      # noqa: BLE001 - the exception type is the observation
            info["raised"] = type(e).__name__
            info["recoded_after_raise"] = (state(obj), state(prm)) != before
            if not info["in_scope"]:
                return [], info
            return [("C13/%s/raises-%s" % (cls, type(e).__name__), {"message": _msg(e)})], info
    after = (state(obj), state(prm))
    if not info["in_scope"]:
        info["changed_out_of_scope"] = after != before
        return [], info
    viol = []
    for tag, b, a in (("object", before[0], after[0]), ("parameter", before[1], after[1])):
        d = _state_diff(b, a)
        if d is not None:
            viol.append(("C13/operand-modified/%s-%s" % (tag, d), {"before": b, "after": _stable(a)}))

    if not pandas_prm:
        found, outcome = _judge_nonpandas(obj_spec, prm_spec, obj_t, prm, ro, rp)
    elif cls.startswith("record"):
        found, outcome = _judge_record_pandas(obj_t, prm_t, ro, rp)
    else:
        if not isinstance(ro, (pd.Series, pd.DataFrame)) or not isinstance(rp, (pd.Series, pd.DataFrame)):
            found, outcome = [("result-not-pandas", {"object": repr(type(ro)), "parameter": repr(type(rp))})], None
        else:
            ro_t, rp_t = table(ro), table(rp)
            found = ref.judge_alignment(obj_t, prm_t, ro_t, rp_t)
            if found and None in obj_t["names"] and None in prm_t["names"] and \
                    not ref.judge_alignment(obj_t, prm_t, ro_t, rp_t, shared_unnamed=True):
                # correct if the two unnamed levels are read as one level; the property does not decide -> not judged
                found = []
                info["accepted_shared_unnamed"] = True
            outcome = (ro_t["names"], ro_t["rows"], ro_t["values"], rp_t["values"])
            info["unmatched"] = ref.unmatched_rows(obj_t, prm_t, ro_t)
    info["outcome"] = outcome
    if pandas_prm and not found:
        found = list(found) + _kept_instance_history(kept, obj, prm)
    seen = set()
    for clause, detail in found:
        if clause not in seen:
            seen.add(clause)
            viol.append(("C13/%s/%s" % (cls, clause), detail))
    return viol, info


_UNSEEN = {int: 99, str: "zz", float: 9.5}


def _kept_instance_history(kept, obj, prm):
    """History on ONE Broadcaster instance: it has just broadcast `prm`; now the underlying object gets a key it has never
    seen (first row re-labelled in place, as `obj.index = ...` or an appended row would do) and the same instance broadcasts
    again.  Nothing may stick to the instance: it must answer exactly like a fresh Broadcaster on the re-labelled object."""
    import pandas as pd
    from pylife.core.broadcaster import Broadcaster
    idx = obj.index
    if isinstance(idx, pd.MultiIndex):
        rows = [list(t) for t in idx]
        rows[0][0] = _UNSEEN[type(rows[0][0]) if not isinstance(rows[0][0], (np.integer, np.floating)) else (int if isinstance(rows[0][0], np.integer) else float)]
        new = pd.MultiIndex.from_tuples([tuple(r) for r in rows], names=idx.names)
    else:
        vals = list(idx)
        v0 = vals[0]
        vals[0] = _UNSEEN[int if isinstance(v0, (int, np.integer)) else float if isinstance(v0, (float, np.floating)) else str]
        new = pd.Index(vals, name=idx.name)
    obj.index = new

    def run(b, o, p):
        try:
            rp, ro = b.broadcast(p)
            return ("ok", table(ro), table(rp))
        except Exception as e:          # noqa: BLE001
            return ("raised", type(e).__name__, None)
    with warnings.catch_warnings():
        warnings.simplefilter("ignore")
        fresh_obj, fresh_prm = obj.copy(), prm.copy()
        got = run(kept, obj, prm)
        exp = run(Broadcaster(fresh_obj), fresh_obj, fresh_prm)
    from mc.explore import jsonable
    if jsonable(got) != jsonable(exp):          # (NaN-safe comparison)
        return [("kept-instance-answers-differently-after-relabel",
                 {"relabelled_index": table(fresh_obj)["rows"], "kept_instance": list(got), "fresh_instance": list(exp)})]
    return []


def _judge_record_pandas(obj_t, prm_t, ro, rp):
    import pandas as pd
    out = []
    if not isinstance(ro, pd.DataFrame) or not isinstance(rp, (pd.Series, pd.DataFrame)):
        return [("result-not-pandas", {"object": repr(type(ro)), "parameter": repr(type(rp))})], None
    ro_t, rp_t = table(ro), table(rp)
    if (rp_t["names"], rp_t["rows"]) != (ro_t["names"], ro_t["rows"]):
        out.append(("result-indices-differ", {"object": [ro_t["names"], ro_t["rows"]], "parameter": [rp_t["names"], rp_t["rows"]]}))
    if (rp_t["names"], rp_t["rows"], rp_t["cols"]) != (prm_t["names"], prm_t["rows"], prm_t["cols"]) or \
            not all(ref._same_value(a, b) for x, y in zip(rp_t["values"], prm_t["values"]) for a, b in zip(x, y)):
        out.append(("parameter-not-returned-as-is", {"returned": rp_t, "original": prm_t}))
    out += ref.judge_record(obj_t, None, ro_t, n_rows=len(prm_t["rows"]))
    return out, (ro_t["names"], ro_t["rows"], ro_t["values"])


def _judge_nonpandas(obj_spec, prm_spec, obj_t, prm, ro, rp):
    import pandas as pd
    kind = prm_spec["kind"]
    vals = [float(v) for v in prm_spec["values"]]
    out = []
    if kind in ("scalar", "array0d"):
        if obj_spec["kind"] == "series":
            # documented: Series x scalar -> Series, scalar
            if np.ndim(rp) != 0 or float(rp) != vals[0]:
                out.append(("scalar-not-returned", {"returned": repr(rp)}))
            if not isinstance(ro, pd.Series) or table(ro) != obj_t:
                out.append(("object-not-returned-as-is", {"returned": repr(ro)}))
            return out, ("scalar", repr(rp))
        expected_prm = [[vals[0]] for _ in obj_t["rows"]]
    else:
        if obj_spec["kind"] == "series":
            return _judge_series_array(obj_spec, obj_t, vals, ro, rp)
        expected_prm = [[v] for v in (vals * len(obj_t["rows"]) if len(vals) == 1 else vals)]
    # DataFrame object: the parameter becomes a Series on the object's index, the object is returned as is
    if not isinstance(rp, pd.Series) or not isinstance(ro, pd.DataFrame):
        return [("result-not-pandas", {"object": repr(type(ro)), "parameter": repr(type(rp))})], None
    ro_t, rp_t = table(ro), table(rp)
    if (rp_t["names"], rp_t["rows"]) != (ro_t["names"], ro_t["rows"]):
        out.append(("result-indices-differ", {"object": [ro_t["names"], ro_t["rows"]], "parameter": [rp_t["names"], rp_t["rows"]]}))
    if ro_t != obj_t:
        out.append(("object-not-returned-as-is", {"returned": ro_t, "original": obj_t}))
    if rp_t["values"] != expected_prm:
        out.append(("wrong-value-prm", {"returned": rp_t["values"], "expected": expected_prm}))
    return out, (rp_t["rows"], rp_t["values"])


def _judge_series_array(obj_spec, obj_t, vals, ro, rp):
    import pandas as pd
    if not isinstance(rp, pd.Series) or not isinstance(ro, (pd.Series, pd.DataFrame)):
        return [("result-not-pandas", {"object": repr(type(ro)), "parameter": repr(type(rp))})], None
    ro_t, rp_t = table(ro), table(rp)
    record = []
    if (rp_t["names"], rp_t["rows"]) != (ro_t["names"], ro_t["rows"]):
        record.append(("result-indices-differ", {"object": [ro_t["names"], ro_t["rows"]], "parameter": [rp_t["names"], rp_t["rows"]]}))
    if rp_t["values"] != [[v] for v in vals]:
        record.append(("wrong-value-prm", {"returned": rp_t["values"], "expected": vals}))
    if isinstance(ro, pd.DataFrame):
        record += ref.judge_record(obj_t, None, ro_t, n_rows=len(vals))
    else:
        record.append(("record-columns", {"returned": repr(type(ro))}))
    outcome = (ro_t["names"], ro_t["rows"], ro_t["values"], rp_t["values"])
    if not record:
        return [], outcome
    if obj_spec["names"] != [None] and len(vals) in (1, len(obj_t["rows"])):
        # positional reading of a named Series (property silent on which one): parameter on the object's index
        expected_prm = [[v] for v in (vals * len(obj_t["rows"]) if len(vals) == 1 else vals)]
        if ro_t == obj_t and (rp_t["names"], rp_t["rows"]) == (obj_t["names"], obj_t["rows"]) and rp_t["values"] == expected_prm:
            return [], outcome
    return record, outcome


# ---------------------------------------------------------------------------------------------------------------------
# the calculation built on it: Woehler curves per element x loads per scenario
CURVES = {1: {"k_1": 3.0, "ND": 1e6, "SD": 100.0, "k_2": math.inf, "TN": 4.0},
          2: {"k_1": 5.0, "ND": 2e6, "SD": 200.0, "k_2": 9.0, "TN": 4.0},
          3: {"k_1": 4.0, "ND": 5e5, "SD": 150.0, "k_2": 4.0, "TN": 2.0}}
LOADS = {0: 150.0, 1: 50.0, 2: 400.0}          # scenario id -> load (between the knees, below all, above all)
ELOADS = {1: 100.0, 2: 250.0, 3: 120.0}        # per-element loads (on the knee, above, below)
MATERIAL = {1: "steel", 2: "alu", 3: "steel"}
_SCALAR = {}


def _scalar_cycles(elem, load, fp):
    """pyLife's own scalar evaluation (the property's 'element-by-element scalar result')."""
    import pandas as pd
    import pylife.materiallaws.woehlercurve  # noqa: F401
    k = (elem, load, fp)
    if k not in _SCALAR:
        _SCALAR[k] = float(pd.Series(CURVES[elem]).woehler.cycles(load, fp))
    return _SCALAR[k]


def _perms(ids):
    out = []
    for r in range(1, len(ids) + 1):
        out += [list(p) for p in itertools.permutations(ids, r)]
    return out


def woehler_cases(curve_layout, load_layout):
    """All (elements, load rows, failure probability) of one layout pair."""
    cases = []
    for elems in _perms([1, 2, 3]):
        if load_layout in ("s", "n"):
            load_rows = [[[s] for s in scen] for scen in _perms([0, 1, 2])]
        elif load_layout == "e":
            load_rows = [[[e] for e in es] for es in _perms([1, 2, 3])]
        else:
            # (element, scenario): every element of the curves with 1..2 scenarios, all orders of <= 4 rows; the shared
            # level 'elem' carries the same key set in both operands (the property's quantifier for overlapping names)
            load_rows = []
            for scen in _perms([0, 1])[:4]:
                full = [[e, s] for e in elems for s in scen]
                if len(full) <= 4:
                    load_rows += [list(p) for p in itertools.permutations(full)]
            if load_layout == "se":
                load_rows = [[[s, e] for e, s in rows] for rows in load_rows]
        for rows in load_rows:
            for fp in (0.5, 0.1):
                cases.append({"part": "woehler", "curves": curve_layout, "loads": load_layout, "elements": elems, "load_rows": rows, "fp": fp})
    return cases


def check_woehler(case):
    import pandas as pd
    import pylife.materiallaws.woehlercurve  # noqa: F401
    elems, rows, fp = case["elements"], [tuple(r) for r in case["load_rows"]], case["fp"]
    ll, cl = case["loads"], case["curves"]
    if cl == "e":
        cindex = pd.Index(elems, name="elem")
        cnames = ["elem"]
        crows = [(e,) for e in elems]
    else:
        cindex = pd.MultiIndex.from_tuples([(e, MATERIAL[e]) for e in elems], names=["elem", "mat"])
        cnames = ["elem", "mat"]
        crows = [(e, MATERIAL[e]) for e in elems]
    curves = pd.DataFrame([CURVES[e] for e in elems], index=cindex)
    lnames = {"s": ["scen"], "n": [None], "e": ["elem"], "es": ["elem", "scen"], "se": ["scen", "elem"]}[ll]

    def load_of(row):
        d = dict(zip(lnames, row))
        if ll == "e":
            return ELOADS[d["elem"]]
        s = d["scen"] if "scen" in d else row[0]
        return LOADS[s] + (10.0 * d["elem"] if "elem" in d else 0.0)
    if len(lnames) == 1:
        lindex = pd.Index([r[0] for r in rows], name=lnames[0])
    else:
        lindex = pd.MultiIndex.from_tuples(rows, names=lnames)
    load = pd.Series([load_of(r) for r in rows], index=lindex, name="load")
    curves_t = {"names": cnames, "rows": crows, "cols": ["N"], "values": [[float(e)] for e in elems]}
    load_t = {"names": lnames, "rows": rows, "cols": ["N"], "values": [[load_of(r)] for r in rows]}
    cls = ("woehler/" + ("names-differ-positions-coincide" if ref.positions_coincide(curves_t, load_t) else
                         ref.relation(ref.level_ids(cnames, "obj"), ref.level_ids(lnames, "prm"))))
    scope = ref.in_scope(curves_t, load_t)
    info = {"class": cls, "in_scope": scope, "raised": None, "outcome": None}
    before = (state(curves), state(load))
    with warnings.catch_warnings():
        warnings.simplefilter("ignore")
        try:
            signal = curves.woehler                     # the signal object is kept: it is an operand of the broadcast, too
            signal_before = state(signal.to_pandas())
            got = signal.cycles(load, fp)
            signal_after = state(signal.to_pandas())
        except Exception as e:                      # noqa: BLE001
            info["raised"] = type(e).__name__
            return ([("C13/%s/raises-%s" % (cls, type(e).__name__), {"message": _msg(e)})] if scope else []), info
    if not scope:
        return [], info
    viol = []
    d0 = _state_diff(signal_before, signal_after)
    if d0 is not None:
        viol.append(("C13/woehler/operand-modified/signal-object-%s" % d0, {"before": signal_before, "after": _stable(signal_after),
                                                                            "failure_probability_asked": fp}))
    after = (state(curves), state(load))
    for tag, b, a in (("curves", before[0], after[0]), ("load", before[1], after[1])):
        d = _state_diff(b, a)
        if d is not None:
            viol.append(("C13/woehler/operand-modified/%s-%s" % (tag, d), {"before": b, "after": _stable(a)}))
    if not isinstance(got, pd.Series):
        viol.append(("C13/%s/result-not-a-series" % cls, {"got": repr(type(got))}))
        return viol, info
    got_t = table(got)
    info["outcome"] = (got_t["names"], got_t["rows"], got_t["values"])
    # expected value of a result row: scalar cycles of (curve of the row's element, load of the row's load key)
    oi, pi = ref.level_ids(cnames, "obj"), ref.level_ids(lnames, "prm")
    all_ids = list(oi) + [p for p in pi if p not in oi]
    assignments = list(ref._result_level_assignments(got_t["names"], oi, pi))
    if not assignments:
        viol.append(("C13/%s/result-levels" % cls, {"result": got_t["names"], "curves": cnames, "loads": lnames}))
        return viol, info
    ids = assignments[0]
    curve_keys, load_keys = set(crows), set(rows)
    have = set()
    for r, (v,) in zip(got_t["rows"], got_t["values"]):
        ck, lk = ref.restrict(r, ids, oi), ref.restrict(r, ids, pi)
        if ck in curve_keys and lk in load_keys:
            have.add(ref.restrict(r, ids, all_ids))
            exp = _scalar_cycles(ck[0], load_of(lk), fp)
            ok = (v == exp) or (math.isfinite(exp) and math.isfinite(v) and abs(v - exp) <= 1e-12 * abs(exp))
            if not ok:
                viol.append(("C13/%s/cycles-differ-from-scalar-result" % cls, {"row": r, "got": v, "expected": exp}))
                break
        # rows for which one operand has no key: the scalar result does not exist, nothing to compare
    shared = [i for i in oi if i in pi]
    want = set()
    for cr in crows:
        for lr in rows:
            if ref.restrict(cr, oi, shared) == ref.restrict(lr, pi, shared):
                merged = dict(zip(oi, cr))
                merged.update(zip(pi, lr))
                want.add(tuple(merged[i] for i in all_ids))
    missing = sorted(want - have, key=repr)
    if missing:
        viol.append(("C13/%s/element-scenario-combinations-missing" % cls, {"missing": missing, "levels": [str(i) for i in all_ids]}))
    return viol, info


# ---------------------------------------------------------------------------------------------------------------------
def _nonpandas_params(n_rows):
    out = [{"kind": "scalar", "values": [5.0]}, {"kind": "array0d", "values": [5.0]}]
    for kind in ("list", "ndarray"):
        for n in sorted({1, 2, 3, n_rows, n_rows + 1}):
            out.append({"kind": kind, "values": [7.0 + 2 * i for i in range(n)]})
    return out


def _account(acc, case, viol, info, nontrivial):
    acc.cases += 1
    acc.evaluations += 1
    acc.count("class/" + info["class"])
    if info["raised"]:
        acc.count("raised/%s%s" % (info["raised"], "" if info["in_scope"] else "(outside quantifier, not judged)"))
        if info.get("recoded_after_raise") and not info["in_scope"]:
            acc.count("outside-quantifier/operands-left-recoded-after-raise")
    if not info["in_scope"]:
        acc.count("outside-quantifier(not judged)")
    elif nontrivial:
        acc.nontrivial += 1
    if info.get("accepted_shared_unnamed"):
        acc.count("not-judged/correct-only-if-unnamed-levels-of-both-operands-are-one-level")
    if info.get("unmatched", (0, 0)) != (0, 0):
        acc.count("not-judged/operand-rows-with-unmatched-shared-key/kept-in-result", info["unmatched"][0])
        acc.count("not-judged/operand-rows-with-unmatched-shared-key/dropped-from-result", info["unmatched"][1])
    if info["outcome"] is not None:
        acc.outcomes.add(h64(info["outcome"]))
    for key, detail in viol:
        acc.violation(key, case, detail)


def run_shard(shard):
    acc = Acc()
    part, tier = shard[0], shard[1]
    if part == "nonpandas":
        for idx in indices(shard[2], tier):
            for kind in ("series", "frame"):
                obj_spec = dict(idx, kind=kind, base=1.0)
                for prm_spec in _nonpandas_params(len(idx["rows"])):
                    case = {"part": "align", "obj": obj_spec, "prm": prm_spec}
                    viol, info = check_pair(obj_spec, prm_spec)
                    _account(acc, case, viol, info, len(idx["rows"]) >= 2 or len(prm_spec["values"]) >= 2)
    elif part == "align":
        _, _, lo, lp, i0, i1 = shard
        prm_indices = indices(lp, tier)
        for oidx in indices(lo, tier)[i0:i1]:
            for pidx in prm_indices:
                differ = (oidx["names"], oidx["rows"]) != (pidx["names"], pidx["rows"])
                for okind in ("series", "frame"):
                    for pkind in ("series", "frame"):
                        obj_spec = dict(oidx, kind=okind, base=1.0)
                        prm_spec = dict(pidx, kind=pkind, base=100.0, cols=["p", "q"])
                        case = {"part": "align", "obj": obj_spec, "prm": prm_spec}
                        viol, info = check_pair(obj_spec, prm_spec)
                        _account(acc, case, viol, info, differ)
                        if not differ:
                            shared = dict(prm_spec, share_index=True)
                            case2 = {"part": "align", "obj": obj_spec, "prm": shared}
                            viol2, info2 = check_pair(obj_spec, shared)
                            _account(acc, case2, viol2, info2, True)
                        if differ and not viol and info["in_scope"] and len(acc.samples) < 1 and len(oidx["rows"]) + len(pidx["rows"]) >= 4 \
                                and lo != lp and okind != pkind:
                            acc.sample({"case": case, "result(names, rows, object values, parameter values)": info["outcome"]})
    else:
        _, _, cl, ll = shard
        for case in woehler_cases(cl, ll):
            viol, info = check_woehler(case)
            _account(acc, case, viol, info, True)
            if not viol and info["in_scope"] and len(acc.samples) < 1 and len(case["elements"]) == 3 and len(case["load_rows"]) == 3:
                acc.sample({"case": case, "cycles(names, rows, values)": info["outcome"]})
    return acc


def replay(case):
    if case.get("part") == "woehler":
        return check_woehler(case)[0]
    return check_pair(case["obj"], case["prm"])[0]
