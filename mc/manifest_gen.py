"""Regenerates /verif/MANIFEST.json from the table below (python -m mc.manifest_gen)."""
import json
import os

VERIF = os.path.dirname(os.path.dirname(os.path.abspath(__file__)))

CHECKS = {
    "C01": dict(cat="model_checking", tech="explicit-state search over chunking histories of the real detectors, differential oracle vs one-piece run",
                text="Every chunking (composition) of every signal over a 3-5 letter alphabet up to the stated length is executed on the real "
                     "detectors; states are (prefix, full detector+recorder state), merged only when identical; every state is compared with "
                     "one-piece processing and every global index with the chunk map. Bounded-exhaustive, not a proof for longer signals.",
                note="Small-scope hypothesis (closing rules see only order relations); rainflow_ext rebuilt from extension.pyx; numpy trusted.",
                ref="3 C01"),
    "C02": dict(cat="exploration", tech="exhaustive enumeration of all signals over a small alphabet against executable counting definitions",
                text="Every float signal of length 2..n over a 5-7 letter integer alphabet (all ties, plateaus, repeated extremes of that scope) is "
                     "run through the three real detectors and compared with list-based reference definitions of the four-point and HCM rules, "
                     "including turning-point accounting and index->value consistency. Complete for the stated scope only.",
                note="Reference definitions in mc/refs/rainflow.py are trusted (two independent four-point codings cross-checked on the whole space).",
                ref="3 C02"),
    "C03": dict(cat="exploration", tech="exhaustive enumeration of all instances of metamorphic relations (refinement, negation, affine, NaN, Series index) on all small signals",
                text="For every base signal of length 2..n over {-2..2} and each detector, every instance of each relation the property names is executed on the "
                     "real code: every single (thorough: double) insertion of a repeated value or midpoint, negation, 9 exact dyadic affine maps, every interior NaN "
                     "placement (warning + index correction), 6 pandas index types. Equality is exact. Complete for the stated scope only.",
                note="Dyadic maps keep float arithmetic exact; the relation's expected index map is the monotone map moving indices with their samples.",
                ref="3 C03"),
    "C04": dict(cat="model_checking", tech="explicit-state search over pass histories (first, second x3) of the real HCM detector for all small load sequences, periodic-rainflow reference",
                text="For every load sequence of length 2..n over a 5-7 level alphabet the history process_hcm_first, process_hcm_second x3 is executed on one live "
                     "detector; after each transition the recorded hystereses are compared with an independent periodic four-point count, Memory-3 rows are "
                     "checked for pass and symmetry, later passes must repeat pass 2, every single non-reversal insertion (incl. both sides of the junction) "
                     "must leave pass 2 unchanged, and a stub law must give the same counting. Every junction class of the quantifier occurs and is counted per class.",
                note="Periodic four-point count from the largest |load| is taken as the definition of the steady-state cycles; bounded scope.",
                ref="3 C04"),
    "C05": dict(cat="exploration", tech="exhaustive enumeration of all small load sequences x law configurations against an independent HCM implementation; all ordered point sets for batches",
                text="All load sequences of length 2..n over 100*{-2..2} x 6 (law, parameter) configurations are compared column by column (rtol 1e-11) with an "
                     "independent plain-float implementation of the guideline HCM that calls the same law object; all ordered point sets of size 1..3 over 4 load "
                     "ratios are compared with single-point runs; every sequence with its negation.",
                note="Reference in mc/refs/hcm_nonlinear.py is trusted as the reading of the guideline procedure (index-based Clormann-Seeger memory rules).",
                ref="3 C05"),
    "C06": dict(cat="exploration", tech="exhaustive lattice enumeration (materials x K_p x tolerances x loads x container types) against bisection roots of the defining equations",
                text="Every point of a lattice of FKM material estimates x K_p (incl. 1, 1.001, 10) x solver tolerances x loads from 0.002 to 4 R_m (both signs, 0) x "
                     "both branches is solved by the real laws in every container type (float, numpy scalar, 0-d/1-d arrays, Series, shuffled Series, 150-point grid) "
                     "and compared with the exact root found by bisection in plain math (distance <= 10 x requested tolerance), load/K_p <= |sigma| <= |load|, oddness, "
                     "strict monotonicity, round trips through the backward functions and element-wise container agreement. Lattice only; every boundary included.",
                note="Bisection reference in mc/refs/notch.py; tolerance factor 10 stated; solver RuntimeErrors counted, not judged (as the property says).",
                ref="3 C06"),
    "C07": dict(cat="exploration", tech="exhaustive enumeration of all class edges (and neighbouring floats) x bin counts x maxima x call styles of the Binned look-up",
                text="For 2 laws x 2 parameter sets x 3-4 maxima x 5-9 bin counts, single and per-point tables: every stored class edge, the floats just below and above it, "
                     "edge +- 1e-9 max, interior points, 0, the top edge and loads above it, both signs, both branches, scalar / Series / per-point Series calls. Oracle: exact "
                     "row of the smallest stored edge >= |L| with the sign of L, table = wrapped law on the edge grid, per-point tables = single tables, guard raises, "
                     "never below the exact law, monotone, within one class.",
                note="The stored edge (k/n)*L_max is the reference edge; number_of_bins=1 fails at construction and is counted only.",
                ref="3 C07"),
    "C08": dict(cat="exploration", tech="exhaustive lattice enumeration of curve parameters x scatter x probabilities x loads/cycles (incl. every transformed knee) against a plain log-normal reference; exhaustive search of all call sequences (26 operations, depth 3 / 4) on a kept curve object and the objects derived from it",
                text="Every curve of the lattice k_1 x k_2 (incl. inf, absent) x SD x ND x scatter (absent, TN only, TS only, both) x native P x target P is probed at loads and "
                     "cycles placed relative to SD/ND and to every *transformed* knee (x{0.2..10}, 1 -+ 1e-12): inverse pairs, monotony, knee continuity, slopes, Miner variants and "
                     "non-destructiveness, quantile ratios TN/TS, all 25 compositions of the probability transform, scatter conversions, broadcast = element-wise scalar.",
                note="Reference quantiles from statistics.NormalDist; cycles(load(N)) beyond the knee for k_2 = inf counted, not judged (life not finite).",
                ref="3 C08"),
    "C09": dict(cat="exploration", tech="exhaustive enumeration of all small hysteresis tables (levels x closed/half x two passes) against a literal accumulation loop in exact fractions; lattices for curves, P_RAM, beta, gamma_L",
                text="All ordered hysteresis tables with <= 2 first-pass and <= 3 second-pass rows over a level alphabet (below endurance, just above, mid, above P_Z) x {closed, half} "
                     "are run through the real DamageCalculatorPRAM (single and 25-point batches) and compared with a literal add-until-one loop (exact Fractions for a family "
                     "whose sums hit 1 exactly); P_RAM/P_RAJ curves on 27 parameter sets (inverse, monotone, continuity at 1e3 and the endurance knee, inf below); 630 P_RAM rows; "
                     "compute_beta on 131-311 probabilities; 282 gamma_L cases.",
                note="Early-failure reporting (n_times = 0, cycles accumulated while below one) pinned to the class documentation; normal-distribution gamma_L judged against the documented formula.",
                ref="3 C09"),
    "C10": dict(cat="exploration", tech="exhaustive enumeration of batch compositions, single insertions and monotone parameter lines over a template menu of the real assessment pipeline (differential / metamorphic oracles)",
                text="perform_fkm_nonlinear_assessment (about 1 s per call) is run for every ordered selection of load ratios (incl. equal ratios, near-endurance ratios, "
                     "uniform and per-point gradient) and compared point by point with single-point calls (rtol 1e-9, verdicts ==); for every single insertion of a repeated "
                     "value or midpoint into every cyclic gap (junction on both sides) of every template; along lines of load scale x R_z x P_A (lifetime never increases, "
                     "verdict never turns infinite, N_10 <= N_50 <= N_90). 3 (thorough 6) templates x 1 (4) parameter sets; batch independence additionally for all alternating "
                     "4-sample (thorough 5) sequences over six load levels, with node ids that do not ascend, and after another batch in the same process.",
                note="Small but complete space (606 quick cases); rainflow_ext rebuilt from the working tree; a midpoint prepended outside [0, s0] is a reversal of pass 1 and is excluded.",
                ref="3 C10"),
    "C11": dict(cat="exploration", tech="exhaustive enumeration of all cycle vectors over {0,1,5000}^4 (5 classes thorough) x class limits x curves x load levels, metamorphic clauses",
                text="Every cycle vector (every pattern of empty classes at top, bottom and in between) on regular, irregular and five-class limits, as LoadHistogram, LoadCollective "
                     "and histogram with a mean level, at load levels 0.5..3 incl. collectives entirely below SD and knees exactly on a class amplitude: damage additive over all "
                     "splits and over counts, proportional, order independent (24 permutations), original <= Haibach <= elementary member-wise, Gassner cycles => damage 1 "
                     "(rtol 1e-9) for both Miner accessors with and without k_2, 0.3 <= D_m <= 1.",
                note="No reference model: all clauses are relations between runs of the real code.",
                ref="3 C11"),
    "C12": dict(cat="exploration", tech="exhaustive lattice enumeration of (amplitude, mean, diagram, R_goal, R_1 -> R_2 paths) against a closed-form Haigh reference; exhaustive small rainflow matrices",
                text="All cycles of an (amplitude x mean) lattice hitting R = -inf, -1, 0, R12, R23, > 1 exactly x 4 Goodman and 4-16 five-segment diagrams x 12-18 targets: "
                     "Goodman closed form, path independence over all (R_1, R_2), idempotence, fixed points, continuity at every segment border and monotonicity, agreement of "
                     "function / collective / histogram interfaces, and cycle conservation of the matrix interface over all count vectors of small matrices and index layouts.",
                note="Five-segment closed form is not given by the property: mismatches to the reference walk are counted, not judged. R_goal = 1, +inf not enumerated.",
                ref="3 C12"),
    "C13": dict(cat="exploration", tech="exhaustive enumeration of small index layouts x operand kinds against a dict look-up reference; deep operand snapshot before/after",
                text="All pairs of 9 index layouts (named, unnamed, two-level, swapped level order, partially shared) with 1-3 rows in all row orders x "
                     "{Series, DataFrame} object x {scalar, 0-d, list, ndarray, Series, DataFrame} parameter are broadcast by the real Broadcaster and compared "
                     "with a dict look-up reference (identical result indices, per-row values or NaN, completeness); operands are deep-snapshotted before and "
                     "after; per-element Woehler curves x per-scenario loads are compared with scalar evaluation. Layouts outside the quantifier are counted, not judged.",
                note="Unnamed-level sharing and rows of the smaller operand whose key is missing in the larger are outside the property and only counted.",
                ref="3 C13"),
    "C14": dict(cat="exploration", tech="exhaustive enumeration of small collectives x bin specifications and of count vectors x source/target binnings against a plain reference",
                text="All collectives of 1-3 (thorough 4) rows over from/to in {-2,-1,0,1,3} in both descriptions, with optional cycles column and extra levels, x 13 bin "
                     "specifications (counts, edges, interval indices, single bins, edges on values) x scalar and per-level scale/shift operands; all count vectors {0,1,5}^3 "
                     "(2-D: ^4) x source/target binning pairs for rebin (conservation, identity, composition) and combine (grand total).",
                note="A row of a collective counts as one cycle for histogramming (interpretation fixed in DESIGN); numpy's edge convention is the reference.",
                ref="3 C14"),
    "C15": dict(cat="exploration", tech="exhaustive lattice enumeration of (strength median/scatter, load scatter, z) scan lines against the closed-form normal overlap; exhaustive search of all question sequences (20 operations, depth 3 / 4) on two kept objects",
                text="Every point of medians x strength std x load std (ratios up to 200, thorough 3000) x z in [-7, 7] is evaluated by pf_norm_load along two scan lines "
                     "(load median / strength median varying) and compared with Phi(z) (|p - Phi| <= 1e-9 + 1e-4 min(Phi, 1-Phi)), with bounds, both monotony clauses, "
                     "pf_simple_load, the vanishing-scatter ladder and the sampled-density ladder of pf_arbitrary_load.",
                note="Arbitrary-load rungs judged only where the coarser grid resolves the strength std; explicit integration limits not exercised.",
                ref="3 C15"),
    "C16": dict(cat="exploration", tech="exhaustive lattice enumeration of parameters x stress/strain states for closed-form material laws against plain references; exhaustive search of all call sequences (27 operations incl. caller actions, depth 4) on kept objects and argument buffers",
                text="Ramberg-Osgood over E x K x n (0.05..0.95) x stresses up to 2K and strains up to 1, scalar and array: inverse pairs, oddness, monotonicity, compliance vs "
                     "central differences, Masing doubling, lower branch at the reversal; Hooke 1D/2D/3D over E x nu x all states in {-1,0,2}^k: identities and plane reductions; "
                     "true stress/strain inverses.",
                note="Lattice only; beyond |strain| <= 1 counted, not judged.",
                ref="3 C16"),
    "C17": dict(cat="exploration", tech="exhaustive enumeration of the integer tensor lattice x the 24 cube rotations x scales against an independent Jacobi eigen-solver; exhaustive search of all call sequences (34 operations, depth 3 / 4) on a kept frame, kept accessor and kept component arrays",
                text="All 15 625 symmetric tensors with components in {-2..2} (thorough: also {-3..3}) x 24 exact cube rotations + rational rotations x exact and inexact "
                     "scales are evaluated by every equivalent-stress function (scalar, column, accessor) and compared with the definitions from eigenvalues of an "
                     "own Jacobi solver (cross-checked with eigvalsh and the characteristic polynomial); inequalities, signed variants and the +1 convention included.",
                note="abs-max sign not judged where lambda_max = -lambda_min exactly on non-diagonal tensors (LAPACK rounding); lattice bounded.",
                ref="3 C17"),
    "C18": dict(cat="exploration", tech="exhaustive enumeration of synthetic fatigue series (levels x repetitions x jitter x run-out configurations) x scale factors x row permutations, metamorphic + reference likelihood",
                text="Every synthetic series of the menu (k x level subsets of {250,300,350,400} x repetitions x jitter patterns x 6-7 run-out configurations) is analysed by the real "
                     "Elementary / Probit / MaxLikeInf / MaxLikeFull under load scaling, cycle scaling, reversed / rotated / swapped / all (n <= 4-5) row orders and carried labels; "
                     "closed-form analyzers at rtol 1e-9, likelihood maximisers by reference log-likelihood (1e-3) and 5 % on well-determined parameters; exact-line recovery "
                     "(k_1, TN = TS = 1), zone partition at the reported transition, likelihood not below the elementary start. Histories over analyzer objects in one process and "
                     "on one kept FatigueData object (several analyzers, transition moved, asked again) must give what fresh objects give.",
                note="Parameters in likelihood-flat directions are counted, not judged; ND under load scaling is not in the property; MaxLike runs are slow, the family is smaller.",
                ref="3 C18"),
    "C19": dict(cat="exploration", tech="exhaustive enumeration of small meshes x node/element numberings x row orders x linear fields; all small incidence structures x value assignments vs union-find",
                text="Gradient / Gradient3D on hex, 5-/6-tet and mixed hex/tet blocks (1..2)^3, 3 perturbations, 6 node x 3-6 element numberings (offset, gaps, reversed, deranged, zero-based), "
                     "row orders incl. fully shuffled, linear fields (64-field sweep on plain configurations), cell sizes 2^-10 / 2^10, kept accessor asked again after the nodes moved; mapper identity / linear reproduction; Surface3D on blocks up to 3x3x3; "
                     "HotSpot labels for all incidence structures of <= 2 (thorough 3) elements x all value assignments in {1,2,3}^rows x 3 thresholds vs a union-find reference.",
                note="Quadratic elements and unstructured meshes are not enumerated.",
                ref="3 C19"),
    "C20": dict(cat="model_checking", tech="explicit-state BFS over exporter call histories (incl. failing calls) on real HDF5 files, dict reference model, twin comparison for failed calls",
                text="All sequences of exporter events (add_geometry for 11-14 small meshes in id/row-order variants, duplicate and unsupported calls that must raise, "
                     "node/element sets valid and with foreign ids, NODE / ELEMENT_NODAL variables, second state, bad column) to depth 3 (quick) / 4 (thorough) are "
                     "replayed on fresh files; every reached state is compared with a dict reference through the real importer (round trip, node order, element order, "
                     "repeatable import, set filters), and every failing call must leave the content unchanged and must not change the outcome of any later call.",
                note="State key = canonical dump of /VMAP/GEOMETRY, /VMAP/VARIABLES, SYSTEM names and exporter attributes; h5py trusted; bounded depth and mesh menu.",
                ref="3 C20"),
}

NOT_APPLICABLE = []


def main():
    props = [json.loads(l) for l in open(os.path.join(VERIF, "properties.jsonl"))]
    ids = [p["id"] for p in props]
    checks = []
    for pid in ids:
        if pid not in CHECKS:
            continue
        c = CHECKS[pid]
        checks.append({
            "property_id": pid,
            "quick_cmd": "./check %s quick" % pid,
            "thorough_cmd": "./check %s thorough" % pid,
            "evidence_file": "/verif/evidence/%s.json" % pid,
            "replay_cmd_template": "./check %s --replay {path}" % pid,
            "engine": "mc-explorer",
            "level_claimed": {"category": c["cat"], "text": c["text"], "design_ref": "DESIGN.md section " + c["ref"]},
            "level_note": c["note"],
            "technique": c["tech"],
        })
    na = list(NOT_APPLICABLE)
    for pid in ids:
        if pid not in CHECKS and pid not in [n["property_id"] for n in na]:
            na.append({"property_id": pid, "reason": "check not built yet (work in progress; planned in DESIGN.md section 3)"})
    man = {
        "version": 1,
        "setup_cmd": "mkdir -p /verif/evidence /verif/replays /verif/build && /venv/bin/python -m compileall -q /verif/mc",
        "hooks": {
            "guard": "BOSCHRESEARCH_PYLIFE_VERIF",
            "enable": "no source hooks are needed; ./check exports BOSCHRESEARCH_PYLIFE_VERIF=1 and imports pylife from /repo/src; "
                      "rainflow_ext is rebuilt from extension.pyx into /verif/build/ext",
            "baseline_off_cmd": "cd /repo && /venv/bin/python -m pytest -ra -q -p no:cacheprovider --timeout=900 --continue-on-collection-errors",
            "source_commits": [],
            "add_only": True,
        },
        "engines": [{
            "name": "mc-explorer", "path": "/verif/mc",
            "serves_properties": [c["property_id"] for c in checks],
            "kind_free_text": "hand-written explicit-state / bounded-exhaustive explorer in Python driving the real pyLife code "
                              "(BFS over operation histories with state hashing; exhaustive product/lattice enumeration against reference models)",
        }],
        "checks": checks,
        "notes": "All checks: ./check <id> quick|thorough [--replay file]. Verdicts are seed independent (VERIF_SEED only selects evidence samples). "
                 "Known findings: /verif/known_findings.json. Besides the spaces named per check, every check drives the API through "
                 "histories a fresh-object test never sees: kept objects asked again after setters / in-place changes of their inputs / "
                 "other questions, results and argument buffers still held by the caller, repeated calls in one process (every shard "
                 "runs in its own forked child; a history dependent violation is replayed as its whole shard), ids and labels in "
                 "non-sorted first-appearance order, and mesh-sized arrays where the API is vectorised (DESIGN.md 6.2, 6.4-6.7).",
        "not_applicable": na,
    }
    with open(os.path.join(VERIF, "MANIFEST.json"), "w") as f:
        json.dump(man, f, indent=1)
    try:
        import jsonschema
        jsonschema.validate(man, json.load(open("/root/.vp/MANIFEST.schema.json")))
        print("MANIFEST.json valid: %d checks, %d not_applicable" % (len(checks), len(na)))
    except FileNotFoundError:
        pass


if __name__ == "__main__":
    main()
