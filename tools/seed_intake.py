#!/venv/bin/python
"""Confirm a seeded property-breaking change produced by a 'breaker' sub-agent and file it under /verif/seeded/<name>/.

usage: tools/seed_intake.py <name> <property> <patch.diff> <demo.py> <needs (text)> [--tier quick] [--checks C01,C02] [--tests "tests/stress"]

Confirms, in a fresh scratch worktree of /repo (removed afterwards):
  1. the demo passes on the unchanged tree,      2. the patch applies (extension rebuilt when the .pyx is touched),
  3. the demo fails with the patch,              4. the pinned test-suite (BASELINE stable_pass) still passes with the patch,
  5. what the registered checks say about it (exit code, VIOLATION lines).
Writes seeded/<name>/{patch.diff, demo.py, meta.json}; exit 0 iff 1-4 hold (the seed is *kept*), whatever 5 says.
"""
import argparse
import json
import os
import shutil
import subprocess
import sys

ap = argparse.ArgumentParser()
ap.add_argument("name"); ap.add_argument("prop"); ap.add_argument("patch"); ap.add_argument("demo"); ap.add_argument("needs")
ap.add_argument("--tier", default="quick"); ap.add_argument("--checks", default=None); ap.add_argument("--tests", default="")
ap.add_argument("--source", default="fresh sub-agent given only the property text and a scratch worktree")
a = ap.parse_args()
checks = (a.checks or a.prop).split(",")
wt = "/tmp/wt_seed_%d" % os.getpid()
ran = []


def sh(cmd, **kw):
    ran.append(cmd if isinstance(cmd, str) else " ".join(cmd))
    return subprocess.run(cmd, shell=isinstance(cmd, str), capture_output=True, text=True, **kw)


def finish(ok, meta):
    subprocess.run(["git", "-C", "/repo", "worktree", "remove", "--force", wt], capture_output=True)
    shutil.rmtree(wt, ignore_errors=True)
    print(json.dumps(meta, indent=1))
    sys.exit(0 if ok else 1)


sh(["git", "-C", "/repo", "worktree", "add", "-q", "--detach", wt, "HEAD"])
sh("cp /repo/src/pylife/rainflow_ext*.so %s/src/pylife/" % wt)
env = dict(os.environ, PYTHONPATH=wt + "/src", PYTHONHASHSEED="0")
env.pop("BOSCHRESEARCH_PYLIFE_VERIF", None)
meta = {"name": a.name, "breaks_property": a.prop, "needs_to_manifest": a.needs, "source": a.source,
        "repo_head": sh(["git", "-C", "/repo", "rev-parse", "--short", "HEAD"]).stdout.strip()}
r = sh(["/venv/bin/python", os.path.abspath(a.demo)], cwd=wt, env=env)
meta["demo_without_change"] = {"exit": r.returncode, "tail": (r.stdout + r.stderr)[-400:]}
if r.returncode != 0:
    meta["verdict"] = "REJECTED: demo fails on the unchanged tree"
    finish(False, meta)
r = sh(["git", "-C", wt, "apply", os.path.abspath(a.patch)])
if r.returncode != 0:
    meta["verdict"] = "REJECTED: patch does not apply: " + r.stderr[-300:]
    finish(False, meta)
if "extension.pyx" in open(a.patch).read():
    r = sh(["/venv/bin/python", "setup.py", "build_ext", "--inplace"], cwd=wt, env=env)
    if r.returncode != 0:
        meta["verdict"] = "REJECTED: extension does not build"
        finish(False, meta)
r = sh(["/venv/bin/python", os.path.abspath(a.demo)], cwd=wt, env=env)
meta["demo_with_change"] = {"exit": r.returncode, "tail": (r.stdout + r.stderr)[-400:]}
if r.returncode == 0:
    meta["verdict"] = "REJECTED: demo does not fail with the change"
    finish(False, meta)
r = sh(["/verif/tools/baseline.py", wt] + a.tests.split())
tail = [l for l in r.stdout.splitlines() if "stable_pass=" in l or "NOT PASSING" in l]
meta["test_suite_with_change"] = {"exit": r.returncode, "summary": tail[:8], "scope": a.tests or "full pinned suite"}
if r.returncode != 0:
    meta["verdict"] = "REJECTED: pinned tests fail with the change"
    finish(False, meta)
meta["checks"] = {}
for c in checks:
    r = sh(["./check", c, a.tier], cwd="/verif", env=dict(os.environ, VERIF_REPO=wt))
    lines = [l[:300] for l in r.stdout.splitlines() if l.startswith(("VIOLATION", "C", "INTERNAL"))]
    meta["checks"][c] = {"tier": a.tier, "exit": r.returncode, "detected": r.returncode == 1,
                         "violation_lines": [l for l in lines if l.startswith("VIOLATION")][:6], "summary": [l for l in lines if not l.startswith("VIOLATION")][:2],
                         "stderr_tail": r.stderr[-300:] if r.returncode not in (0, 1) else ""}
meta["detected_by"] = [c for c, v in meta["checks"].items() if v["detected"]]
meta["verdict"] = "KEPT"
meta["commands_run"] = ran
out = os.path.join("/verif/seeded", a.name)
os.makedirs(out, exist_ok=True)
shutil.copy(a.patch, os.path.join(out, "patch.diff"))
shutil.copy(a.demo, os.path.join(out, "demo.py"))
with open(os.path.join(out, "meta.json"), "w") as f:
    json.dump(meta, f, indent=1)
finish(True, meta)
