#!/bin/bash
# tools/mutant_full.sh <patch> <testdirs (quoted, may be empty)> <tier> <Cxx>...  : tests-still-pass + checks against a scratch worktree
set -u
patch=$(readlink -f "$1"); tests=$2; tier=$3; shift 3
wt=/tmp/wt_mf_$$
git -C /repo worktree add -q --detach "$wt" HEAD || exit 2
cp /repo/src/pylife/rainflow_ext*.so "$wt/src/pylife/" 2>/dev/null
if ! git -C "$wt" apply "$patch"; then echo "PATCH DOES NOT APPLY: $patch"; git -C /repo worktree remove --force "$wt"; exit 2; fi
echo "### $(basename "$patch")"
if [ -n "$tests" ]; then /verif/tools/baseline.py "$wt" $tests 2>&1 | grep -E "stable_pass=|NOT PASSING" | head -5; fi
cd /verif
for c in "$@"; do
  VERIF_REPO="$wt" ./check "$c" "$tier" 2>&1 | grep -E "^(C[0-9]+ |VIOLATION|INTERNAL|Traceback|.*Error)" | cut -c1-200 | head -6
  echo "exit=${PIPESTATUS[0]} ($c)"
done
git -C /repo worktree remove --force "$wt"
