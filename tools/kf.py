#!/venv/bin/python
"""tools/kf.py <property> <key> <fixed|known> <commit|-> <what...>  : append an entry to known_findings.json"""
import json, sys
prop, key, status, commit = sys.argv[1:5]; what = " ".join(sys.argv[5:])
p = '/verif/known_findings.json'; d = json.load(open(p))
e = {"property": prop, "key": key, "status": status}
if status == "fixed":
    e["commit"] = commit; e["what"] = "fixed: property=%s %s %s" % (prop, commit, what)
else:
    e["what"] = what
d["findings"] = [f for f in d["findings"] if not (f["property"] == prop and f["key"] == key)] + [e]
json.dump(d, open(p, 'w'), indent=1)
print("ok", len(d["findings"]))
