#!/venv/bin/python
"""prints the prompt for a fresh 'breaker' sub-agent: only the property text and its own scratch worktree."""
import json, sys
pid = sys.argv[1]; tag = sys.argv[2] if len(sys.argv) > 2 else "a"
p = next(json.loads(l) for l in open('/verif/properties.jsonl') if json.loads(l)['id'] == pid)
wt = "/tmp/brk_%s%s" % (pid, tag)
import glob, os
avoid = []
for m in sorted(glob.glob('/verif/seeded/%s_*/meta.json' % pid)):
    mm = json.load(open(m)); avoid.append("- %s: %s" % (mm["name"].split("_", 1)[1].replace("_", " "), mm["needs_to_manifest"]))
AVOID = ("\n\nIdeas that were already used by others for this property - do NOT repeat them or close variants (in particular no more 'exact comparison replaced by np.isclose / a tolerance' changes); look for different mechanisms, preferably ones that need a multi-step sequence of calls on the same object, state that survives between calls, or two cooperating code sites:\n" + "\n".join(avoid)) if (avoid and tag != "a") else ""
print(f"""You are testing how robust a verification effort is. Work ONLY inside your own scratch git worktree of the Python library pyLife (boschresearch/pylife); create it with

    git -C /repo worktree add --detach {wt} HEAD
    cp /repo/src/pylife/rainflow_ext*.so {wt}/src/pylife/

Do not read or write anything under /verif, do not modify /repo itself, and do not commit anything. Python: /venv/bin/python (pyLife's dependencies are installed; no network). IMPORTANT: the installed package is an editable install of /repo/src, so ALWAYS run python and pytest with `PYTHONPATH={wt}/src` (and cwd {wt}) or you will test /repo instead of your worktree. If you edit src/pylife/stress/rainflow/extension.pyx, rebuild with `cd {wt} && /venv/bin/python setup.py build_ext --inplace`.

The library is supposed to satisfy this semantic property:

  id: {p['id']} — {p['title']}
  statement: {p['statement']}
  quantifier: {p['quantifier']['text']}
  code anchors (where the behaviour lives): {json.dumps(p['anchors'].get('files'))}; mechanisms: {json.dumps([m['name'] + ' @ ' + m['where'] for m in p['anchors'].get('mechanism', [])])}

Task: produce TWO different, independent, realistic source changes to pyLife (each a small patch such as a plausible regression or a well-meant refactoring/optimisation gone wrong; library code only, not tests) that each BREAK this property while the code still imports/compiles and the repository's existing test-suite still passes. Prefer changes that need something specific to manifest — a particular multi-step sequence of calls, an unusual but valid input (ties, plateaus, empty classes, id gaps, particular index layouts, boundary values), a particular interleaving of chunk borders, or two cooperating sites that each look fine alone — NOT changes that ordinary use would expose at once. The two changes should attack different mechanisms of the property.{AVOID}

For each change i in {{1,2}}:
  1. Make the edit in {wt}, save it as {wt}/out/change{{i}}.diff (`git diff > ...`; create the out/ directory; diff relative to the repo root so that `git apply` works).
  2. Write a small demonstration {wt}/out/demo{{i}}.py (plain script, exit code 1 + message when the property is violated, exit 0 otherwise) that FAILS with the change and PASSES without it. Run it both ways (with PYTHONPATH={wt}/src) and keep the outputs.
  3. Run the relevant part of the existing test-suite with the change applied and confirm it still passes: `cd {wt} && PYTHONPATH={wt}/src /venv/bin/python -m pytest -q -p no:cacheprovider --no-cov -n 6 tests/<relevant dirs>` (some tests fail already WITHOUT any change — compare against an unmodified run, what matters is that your change adds no new failures). Also run the doctests of modules you touched: `... -m pytest -q -p no:cacheprovider --no-cov src/pylife/<module>.py`.
  4. `git -C {wt} checkout -- src` before starting the next change (keep out/).
Leave the worktree in place when done (I will collect out/ and remove it). Your final message must contain, per change: the diff, what input/sequence is needed for it to manifest, the demo's output with and without the change, and exactly which test commands you ran with their summary lines.""")
