#!/venv/bin/python
"""tools/seed_recheck.py <seed-name> [--checks C05,C07] [--tier quick] [--note text]
Re-runs checks against an already filed seeded change (scratch worktree, removed afterwards) and updates its meta.json:
the previous result is kept under meta['history'] so that 'missed first, caught after strengthening' stays visible."""
import argparse, json, os, subprocess, sys
ap = argparse.ArgumentParser(); ap.add_argument("name"); ap.add_argument("--checks"); ap.add_argument("--tier", default="quick"); ap.add_argument("--note", default="")
a = ap.parse_args()
d = os.path.join("/verif/seeded", a.name); meta = json.load(open(os.path.join(d, "meta.json")))
checks = (a.checks.split(",") if a.checks else list(meta["checks"]))
wt = "/tmp/wt_re_%d" % os.getpid()
subprocess.run(["git", "-C", "/repo", "worktree", "add", "-q", "--detach", wt, "HEAD"], check=True)
subprocess.run("cp /repo/src/pylife/rainflow_ext*.so %s/src/pylife/" % wt, shell=True)
try:
    subprocess.run(["git", "-C", wt, "apply", os.path.join(d, "patch.diff")], check=True)
    meta.setdefault("history", []).append({"checks": meta["checks"], "detected_by": meta["detected_by"], "verif_commit": meta.get("verif_commit", "earlier")})
    new = {}
    for c in checks:
        r = subprocess.run(["./check", c, a.tier], cwd="/verif", env=dict(os.environ, VERIF_REPO=wt), capture_output=True, text=True)
        lines = [l[:300] for l in r.stdout.splitlines()]
        new[c] = {"tier": a.tier, "exit": r.returncode, "detected": r.returncode == 1,
                  "violation_lines": [l for l in lines if l.startswith("VIOLATION")][:6], "summary": [l for l in lines if l.startswith(c + " ")][:1]}
    meta["checks"] = new
    meta["detected_by"] = [c for c, v in new.items() if v["detected"]]
    meta["verif_commit"] = subprocess.run(["git", "-C", "/verif", "rev-parse", "--short", "HEAD"], capture_output=True, text=True).stdout.strip()
    meta["repo_head"] = subprocess.run(["git", "-C", "/repo", "rev-parse", "--short", "HEAD"], capture_output=True, text=True).stdout.strip()
    if a.note:
        meta["note"] = a.note
    json.dump(meta, open(os.path.join(d, "meta.json"), "w"), indent=1)
    print(a.name, "detected_by", meta["detected_by"])
finally:
    subprocess.run(["git", "-C", "/repo", "worktree", "remove", "--force", wt])
