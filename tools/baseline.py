#!/venv/bin/python
"""Run the repository's pinned test-suite (in REPO, default /repo) and compare with BASELINE.json stable_pass.

usage: tools/baseline.py [repo_dir] [-k pytest-args...]   exit 0 iff every stable_pass test passed.
Uses pytest-xdist (-n 12) when present; scratch junit file goes to /verif/build and is removed."""
import json, os, subprocess, sys, xml.etree.ElementTree as ET
repo = sys.argv[1] if len(sys.argv) > 1 and not sys.argv[1].startswith("-") else "/repo"
extra = [a for a in sys.argv[1:] if a != repo]
os.makedirs("/verif/build", exist_ok=True)
junit = "/verif/build/junit_%d.xml" % os.getpid()
cmd = ["/venv/bin/python", "-m", "pytest", "-q", "-p", "no:cacheprovider", "--timeout=900", "--continue-on-collection-errors",
       "--no-cov", "-n", "12", "--junitxml=" + junit] + extra
env = dict(os.environ); env.pop("BOSCHRESEARCH_PYLIFE_VERIF", None)
env["PYTHONPATH"] = os.path.join(os.path.abspath(repo), "src")   # the editable install points at /repo/src; make the given checkout win
p = subprocess.run(cmd, cwd=repo, env=env, capture_output=True, text=True)
print(p.stdout[-600:])
passed, failed = set(), set()
for tc in ET.parse(junit).getroot().iter("testcase"):
    tid = (tc.get("classname") or "") + "::" + (tc.get("name") or "")
    if tc.find("failure") is not None or tc.find("error") is not None: failed.add(tid)
    elif tc.find("skipped") is None: passed.add(tid)
os.remove(junit)
stable = set(json.load(open("/root/.vp/BASELINE.json"))["stable_pass"])
missing = sorted(stable - passed)
if extra:
    missing = [m for m in missing if m in failed]
print("stable_pass=%d passed_now=%d failed_now=%d stable_not_passing=%d" % (len(stable), len(passed), len(failed), len(missing)))
for m in missing[:40]: print("  NOT PASSING:", m)
sys.exit(1 if missing else 0)
