#!/bin/bash
# tools/mutant.sh <patch-file> <tier> <Cxx> [<Cxx>...]   apply a patch to a scratch worktree of /repo, run checks against it, remove it.
set -u
patch=$(readlink -f "$1"); tier=$2; shift 2
wt=/tmp/wt_mut_$$
git -C /repo worktree add -q --detach "$wt" HEAD || exit 2
cp /repo/src/pylife/rainflow_ext*.so "$wt/src/pylife/" 2>/dev/null
if ! git -C "$wt" apply "$patch"; then echo "PATCH DOES NOT APPLY"; git -C /repo worktree remove --force "$wt"; exit 2; fi
cd /verif
for c in "$@"; do
  VERIF_REPO="$wt" ./check "$c" "$tier" 2>&1 | grep -E "^(C[0-9]+ |VIOLATION|KNOWN|INTERNAL|Traceback|.*Error)" | cut -c1-260
  echo "exit=${PIPESTATUS[0]} ($c on $(basename "$patch"))"
done
git -C /repo worktree remove --force "$wt"
